#!/bin/bash
# usage: fuzz/run.sh <rx_frame|eeprom_image|mailbox_reply> <seconds> [jobs]
# Coverage-guided second driver (libFuzzer + ASan, nightly toolchain, offline). The corpus lives
# outside /verif (/var/tmp/verif-fuzz-corpus/<target>); a violation that is not a known finding
# aborts the target, prints `VIOLATION property=<id> replay=/verif/replays/<id>/violation-fuzz.json`
# and exits 1; exit 0 = the budget was used up without one; 2 = the target could not be built.
set -u
t="$1"; secs="${2:-60}"; jobs="${3:-1}"
cd /verif || exit 2
export CARGO_NET_OFFLINE=true
cargo +nightly fuzz build --fuzz-dir fuzz "$t" >/tmp/verif-fuzz-build-$t.log 2>&1 || { tail -20 /tmp/verif-fuzz-build-$t.log; exit 2; }
corpus=/var/tmp/verif-fuzz-corpus/$t
mkdir -p "$corpus"; cp -n /verif/fuzz/seeds/$t/* "$corpus"/ 2>/dev/null
out=$(fuzz/target/x86_64-unknown-linux-gnu/release/$t "$corpus" -max_total_time="$secs" -seed="${VERIF_SEED:-1}" -max_len=2048 -len_control=0 -detect_leaks=0 -rss_limit_mb=12000 -jobs="$jobs" -workers="$jobs" -artifact_prefix=/var/tmp/verif-fuzz-corpus/$t- 2>&1)
echo "$out" | grep -E "DONE|VIOLATION|^violation" | tail -5
if echo "$out" | grep -q "^VIOLATION"; then exit 1; fi
exit 0
