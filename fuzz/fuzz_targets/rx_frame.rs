//! C05 second driver (coverage guided, byte level): a generated history puts the frame slots into
//! a combination of states (skeleton chosen by the first two bytes), then the fuzzer's remaining
//! bytes are delivered to the receive side as one frame, judged by the C05 oracle of the
//! operation-level interpreter (no panic, strangers rejected without side effects, a matching
//! response routed to exactly its request).
#![no_main]
use libfuzzer_sys::fuzz_target;
use vlib::{core::*, pdusim};

fuzz_target!(|data: &[u8]| {
    if data.len() < 4 {
        return;
    }

    let skeleton = u64::from(u16::from_le_bytes([data[0], data[1]]));
    let strat = pdusim::strategy::case(pdusim::profiles::c05(Tier::Quick));
    let mut case = sample_one(&strat, skeleton);

    let Some(phase) = case.phases.first_mut() else { return };
    // deliver the raw frame somewhere inside the first phase
    let at = usize::from(data[2]) % (phase.ops.len() + 1);

    phase.ops.insert(at, pdusim::Op::Deliver { sel: u16::from(data[3]), mutation: pdusim::Mutation::Raw { bytes: data[4..].to_vec() }, resp_seed: 0, wkc: 1 });

    let f = pdusim::prop_closure("C05");

    fuzz_case("C05", "a1-history", &case, |c, i| f(c, i));
});
