//! C16 second driver (coverage guided, byte level): the fuzzer's bytes choose the entry point and
//! the mailbox size and ARE the replies the simulated device places in its reply mailbox.
//!
//! byte 0: entry point, byte 1: mailbox size selector, byte 2: bit 0 = the last reply is
//! delivered for ever; then replies as `[len][burst flag][bytes...]`.
#![no_main]
use libfuzzer_sys::fuzz_target;
use vlib::{core::*, sim_coe as sc};

fuzz_target!(|data: &[u8]| {
    if data.len() < 3 {
        return;
    }

    let ns = sc::NS;
    let n = ns[usize::from(data[0] >> 4) % ns.len()];

    let entry = match data[0] & 0x0f {
        0 => sc::Entry::ReadU8,
        1 => sc::Entry::ReadU32,
        2 => sc::Entry::ReadU64,
        3 => sc::Entry::ReadArr(n),
        4 => sc::Entry::ReadStr(n),
        5 | 11 | 12 => sc::Entry::ReadVec(n),
        6 => sc::Entry::Write(1 + (data[0] >> 4) % 4),
        7 => sc::Entry::ReadArray { elem: [1, 2, 4][usize::from(data[0] >> 4) % 3], max: [1, 4, 8][usize::from(data[0] >> 6) % 3] },
        8 => sc::Entry::WriteArray((data[0] >> 4) % 4),
        9 => sc::Entry::InfoList(1 + (data[0] >> 4) % 5),
        _ => sc::Entry::InfoQuantities,
    };

    let sizes = [6u16, 8, 10, 12, 14, 16, 17, 20, 24, 32, 48, 64, 128, 256, 1024];
    let mbx = sizes[usize::from(data[1]) % sizes.len()];
    let endless_wanted = data[2] & 1 == 1;

    let mut script: Vec<Vec<Vec<u8>>> = Vec::new();
    let mut rest = &data[3..];

    while rest.len() >= 2 && script.iter().map(|b| b.len()).sum::<usize>() < 12 {
        let len = usize::from(rest[0]).min(rest.len() - 2);
        let same_burst = rest[1] & 1 == 1;
        let reply = rest[2..2 + len].to_vec();

        rest = &rest[2 + len..];

        match script.last_mut() {
            Some(b) if same_burst && b.len() < 3 => b.push(reply),
            _ => script.push(vec![reply]),
        }
    }

    // The SDO information entry points are known not to end under endless replies
    let info = matches!(entry, sc::Entry::InfoList(_) | sc::Entry::InfoQuantities);
    let endless = if endless_wanted && !info { script.pop().and_then(|mut b| b.pop()) } else { None };

    let case = sc::C16Case { mbx, entry, script, endless };

    fuzz_case("C16", "scripted-mailbox", &case, |c, i| sc::run_c16(c, i));
});
