//! C13 second driver (coverage guided, byte level): the fuzzer's bytes ARE the SII image. Every
//! EEPROM query runs over it with the C13 oracle (returns a value or an error: no panic, no
//! endless category walk), for both chunk sizes.
#![no_main]
use libfuzzer_sys::fuzz_target;
use vlib::{core::*, eeprom_checks as ec};

fuzz_target!(|data: &[u8]| {
    if data.is_empty() {
        return;
    }

    let case = ec::C13Case { image: ec::Image::Raw { bytes: data[1..].to_vec() }, chunk8: data[0] & 1 == 1 };

    fuzz_case("C13", "h4-arbitrary-images", &case, |c, i| ec::run_c13(c, i));
});
