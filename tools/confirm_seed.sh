#!/bin/bash
# usage: tools/confirm_seed.sh <worktree> <outdir> <demo-test-filter>
# Confirms a seeded change: builds in both configurations, the unedited suite passes with it,
# the demonstration fails with it and passes without it.
set -u
wt="$1"; out="$2"; filter="$3"
export RUSTUP_TOOLCHAIN=1.88.0 CARGO_NET_OFFLINE=true
cd "$wt" || exit 2
git checkout -q -- . ; git clean -fdq -e target
echo "== apply patch"; git apply "$out/patch.diff" || exit 2
echo "== build default"; cargo build --offline 2>&1 | tail -1
echo "== build hooks"; cargo build --offline --no-default-features --features verif-hooks 2>&1 | tail -1
echo "== suite with patch"; cargo nextest run --workspace --no-fail-fast --offline --test-threads 4 2>&1 | grep -E "Summary|FAIL \[" | sort -u | head
echo "== demo with patch (expect FAIL)"; git apply "$out/demo.diff" || exit 2
cargo nextest run --offline -p ethercrab "$filter" 2>&1 | grep -E "Summary|FAIL \[|PASS \[" | sort -u | head
echo "== demo without patch (expect PASS)"; git apply -R "$out/patch.diff"
cargo nextest run --offline -p ethercrab "$filter" 2>&1 | grep -E "Summary|FAIL \[|PASS \[" | sort -u | head
git checkout -q -- . ; git clean -fdq -e target
