import sys
i=sys.argv[1]
prop=open(f'/tmp/prop-{i}.txt').read()
print(f"""You are working in a scratch git worktree of the Rust crate `ethercrab` (a pure-Rust EtherCAT MainDevice) located at /tmp/seed-{i}. Work ONLY inside /tmp/seed-{i} and /tmp/seed-{i}-out (create the latter). Do NOT read or touch /repo or /verif at all. NEVER use `git stash` (the stash is shared with other worktrees); use `git diff > file` and `git checkout -- .` instead.

Environment: no network. Always use `export RUSTUP_TOOLCHAIN=1.88.0 CARGO_NET_OFFLINE=true CARGO_BUILD_JOBS=4` and pass `--offline` to cargo. The test suite is run with `cargo nextest run --workspace --no-fail-fast --test-threads 4 --offline` (or `cargo test --workspace --offline` as fallback); it currently passes (176 tests; the replay-* integration tests are timing sensitive and can flake when the machine is loaded - re-run a failing one alone before concluding anything).

The source contains lines guarded by `#[cfg(feature = "verif-hooks")]` (instrumentation in src/verif.rs and hook calls in src/pdu_loop). Leave those lines alone (do not delete or move them); your change must compile both with default features and with `cargo build --offline --no-default-features --features verif-hooks`.

THE PROPERTY:
{prop}
YOUR TASK: produce ONE realistic change to the crate's source (the kind of bug a maintainer could plausibly introduce during a refactor, optimisation or "cleanup") that BREAKS this property, while
 (a) the crate still compiles in both feature configurations above, and
 (b) the existing test suite still passes completely, unedited.
The change must need something SPECIFIC to manifest - a particular input shape or size, a multi-step sequence, a particular device behaviour or fault, a boundary value, or two cooperating code sites that each look fine alone - NOT something that every ordinary use exposes at once. Prefer subtle over blatant. Do not simply revert one of the recent commits whose message starts with "fix:" (see `git log`) - invent something different.

Also write a DEMONSTRATION: a test (an integration test under tests/ or a `#[cfg(test)]` unit test inside the crate; crate-internal APIs are only reachable from unit tests inside the crate - see existing tests for how to drive the PDU loop or a MainDevice by hand with scripted responses) that FAILS with your change applied and PASSES without it. If an end-to-end demonstration is impractical, a focused test of the changed function(s) that shows the property-relevant wrong behaviour is acceptable. Verify both directions yourself.

DELIVERABLES in /tmp/seed-{i}-out/:
 - patch.diff : `git diff` of the source change ONLY (not the demo), applicable with `git apply` to a clean checkout of the same commit.
 - demo.diff  : `git diff` (or the new file) adding the demonstration test only, applicable on a clean checkout independently of patch.diff.
 - notes.md   : which clause of the property it breaks, exactly what is needed for it to manifest, the exact commands you ran (build both configs, full test suite with the patch, demo with and without the patch) and their results.
When done, leave the worktree clean (git checkout -- . ; remove untracked files you added) but KEEP its target/ directory. Report a short summary as your final message.""")
