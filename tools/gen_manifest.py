#!/usr/bin/env python3
"""Regenerates /verif/MANIFEST.json from the table below. Run after changing what is claimed."""
import json, subprocess

HOOK_COMMITS = subprocess.run(["git","-C","/repo","log","--format=%H","--grep=^verif-hooks"],capture_output=True,text=True).stdout.split()

CLAIMED = {
 "C04": dict(engine="pdusim", category="exploration", design_ref="§5 C04",
   technique="property-based testing (proptest): generated push programs vs. an independent reference frame encoder, plus a sweep over frame sizes",
   text="Generated-input search: random push programs (all 11 commands, length overrides, fill-the-rest, refusals mid-frame, stale slot contents, index wrap) into frames of every size 28..=1514 are built through the real frame builder and compared byte-for-byte with an independent encoder and a strict structural decoder. Finds counterexamples, never proves absence.",
   note="Trusts the reference encoder/decoder in harness/vlib/src/wire.rs (written from ETG.1000.4) and the verif-hooks facade being a thin wrapper over CreatedFrame."),
}

CLAIMED.update({
 "C01": dict(engine="pdusim", category="exploration", design_ref="§5 C01",
   technique="stateful property-based testing (proptest op sequences) of the real PDU loop against a reference model of requests, slots and the wire",
   text="Generated histories (start/poll/transmit/deliver/drop/read-view/trim over 1..16 slots, several outstanding requests, out-of-order and duplicate responses, index wrap) run against the real PduLoop/PduTx/PduRx; every completion is compared with what the modelled network returned for exactly that request, held views are re-read after every step, wake-ups are checked. Counterexample search, no proof.",
   note="Sequential (op-atomic) interleavings in this engine; trusts the request/slot model in harness/vlib/src/pdusim.rs and the slot inspectors of the verif-hooks feature."),
 "C03": dict(engine="pdusim", category="exploration", design_ref="§5 C03",
   technique="stateful property-based testing (proptest op sequences with injected send failures, losses, expiries, drops, reset) with a slot-accounting model and a drain-and-reallocate probe",
   text="After every op the set of non-free slots must be owned by live handles of the model; after each phase everything is dropped (or leaked and reset) and exactly N frames must be allocatable again. Counterexample search over histories of up to 60/300 ops.",
   note="Abandonment while the transmit side holds the frame is excluded (C06). Trusts the model and the slot inspectors."),
 "C05": dict(engine="pdusim", category="exploration", design_ref="§5 C05",
   technique="property-based testing: arbitrary and structure-aware mutated frames delivered to the real receive path in generated slot-state combinations, before/after snapshot oracle over all slots",
   text="Frames (random bytes, every header field perturbed, truncations, oversize, echoes, duplicates) are delivered while 1..4 slots are in generated state combinations; panics are caught, and all slots are snapshotted (state, index, whole buffer) before and after: strangers must be ignored, unmatched frames must change nothing, an accepted frame may change only its slot.",
   note="A frame addressed to an awaiting request that is rejected half-way may leave that one slot claimed (recorded judgement). Trusts the slot inspectors."),
 "C06": dict(engine="pdusim", category="exploration", design_ref="§5 C06",
   technique="stateful property-based testing under a harness-owned virtual clock (embassy-time driver): generated loss/expiry/retry/drop histories against a timing model; known findings excluded by construction and searched behind",
   text="Retry policies None/Count(0..3)/Forever, lost transmissions, deadline positions and drops are generated; every poll result, retransmission (byte-identical), re-arming of the timer, waking of the transmit task and final slot state is compared with the model. Expiry/abandonment while the transmit side holds the frame is generated in separate runs (two recorded known findings).",
   note="Yield-level interleavings (expiry inside the receive copy etc.) are not reached by this sequential engine. Time is virtual, so 'never hangs' is decided as 'resolves at the modelled deadline'."),
})

CLAIMED.update({
 "C02": dict(engine="a2", category="exploration", design_ref="§5 C02",
   technique="schedule exploration as generated-input search: bounded-exhaustive enumeration of pre-emption-bounded schedules plus random/PCT schedules over the real PDU loop at verif-hooks yield points, with an ownership/transition monitor as oracle",
   text="All parties (1..3 tasks, transmit, receive) run as coroutines; the schedule (which party runs at each of ~50 yield points per request) is the generated input. For {1 slot,2 tasks}, {1 slot,3 tasks}, {2 slots,2 tasks} every schedule with <= P pre-emptions is enumerated (P=2/1/1 quick, 3/2/2 thorough); random and PCT schedules beyond. The monitor derives ownership windows from claims/releases and flags two parties in one buffer, buffer accesses outside ownership, lifecycle transitions outside the documented order, and disagreement with the slot inspector.",
   note="Sequentially consistent interleavings of instrumented points only (no weak-memory effects, nothing inside one copy). Deadline expiry / abandonment while TX/RX is inside is C06's domain and excluded here."),
})
CLAIMED["C01"]["text"] += " The same scenarios are also run under yield-level schedules (engine A2: bounded-exhaustive + random/PCT), where a lost wake-up or a misrouted response shows up as a task that waits forever or completes with foreign data."
CLAIMED["C01"]["note"] = "Yield-level part explores sequentially consistent interleavings of instrumented points only. Trusts the request/slot model in harness/vlib/src/pdusim.rs and the slot inspectors of the verif-hooks feature."
CLAIMED["C06"]["text"] += " Engine A2 additionally moves the clock / abandons the request at every yield point of the transmit and receive paths (pre-emption-bounded enumeration on five small scenarios with a competitor for the slot, random/PCT beyond) and judges the consequences named by the property: another request sharing the buffer, foreign data, differing retransmissions, a slot lost at quiescence, a request that hangs."
CLAIMED["C06"]["note"] = "Sequentially consistent interleavings only. Time is virtual, so 'never hangs' is decided as 'resolves at the modelled deadline / no wake-up pending'. Consequences that follow a recorded unconditional release store while TX/RX is inside are attributed to that known finding."

CLAIMED.update({
 "C12": dict(engine="sii", category="exploration", design_ref="§5 C12",
   technique="property-based testing: device descriptions -> EEPROM images through an independent SII encoder, all range reads and parsed queries compared with the description (round trip / reference model)",
   text="Random well-formed device descriptions (strings incl. non-ASCII/NUL/long, SMs, FMMUs, FMMU_EX, PDOs with entries, unknown categories interleaved in any order, sizes up to 128 KiB of address space) are encoded by the harness's own SII encoder; every byte-range read (odd lengths, mid-chunk ends, words >= 0x8000; 4 and 8 byte chunks; canary after the buffer) and every parsed value must equal the description, with the crate's documented string normalisation and explicit capacity errors accepted. A second sub-run reads the same way through the SII interface of a simulated device (command register, 0..3 busy polls per command with the data register valid only afterwards, 4 / 8 bytes per access, a device that stays busy => timeout).",
   note="Runs through the verif-hooks facade SiiQueries over an in-memory provider; only SII fields whose position is unambiguous in ETG.1000.6/ETG.2010 are compared (General: string indices, CoE/FoE/EoE details, flags, current)."),
 "C13": dict(engine="sii", category="exploration", design_ref="§5 C13",
   technique="property-based fuzzing of the EEPROM parser: arbitrary / mutated / adversarial images, panic capture and a pigeonhole read budget that decides non-termination, in two arithmetic profiles",
   text="Images (random bytes, well-formed images with byte mutations and truncation, hand-built category chains with absurd lengths, constant fill, categories pushed to the 64 KiB / 128 KiB boundaries) are fed to every EEPROM query. A panic (caught, or a fatal signal via the crash guard) is a violation; so is a query that issues more chunk reads than the walk has distinct states. Runs in release and in a profile with overflow checks + debug assertions, merged. A second sub-run puts the same images into a simulated device and runs MainDevice::init (and into_safe_op): it must end with a value or an error.",
   note="In-memory provider through the verif-hooks facade; the initialisation steps built on the queries (configuration.rs) are reached by the simulator-based checks, not here."),
 "C14": dict(engine="sii", category="fault_enumeration", design_ref="§5 C14",
   technique="exhaustive enumeration of all 65536 alias values over random headers plus property-based generic writes, before/after image comparison with an independent bitwise CRC-8",
   text="Every alias 0..=65535 is written into a fresh random header: exactly the alias word and the checksum word may change, the checksum must be CRC-8(poly 0x07, init 0xFF) of the first 14 bytes after the change, the alias must read back. Generic writes of 0..64 bytes at generated word addresses (incl. >= 0x8000, odd lengths) must store exactly the bytes, pad an odd byte with zero and touch no other word. A second sub-run writes aliases through the SII interface of a simulated device that answers 0..25 command errors per word (retry bound 20: exactly min(k,20)+1 write commands per word) or stays busy (timeout).",
   note="In-memory provider; command-error retries and busy devices need the simulated SII register interface (simulator-based part)."),
})

CLAIMED.update({
 "C19": dict(engine="wiregen", category="translation_validation", design_ref="§5 C19",
   technique="program generation + differential testing: hundreds of generated derive programs per run are compiled against /repo/ethercrab-wire and driven with generated values and buffers; an independent bit-level reference packer/unpacker built from the declared layout table is the oracle",
   text="Each run generates 300 (quick) / 12x600 (thorough) struct and enum definitions inside the grammar the derive macros accept, compiles them, and for every type checks pack()/pack_to_slice() bytes, unpack of arbitrary buffers (PACKED_LEN-3..+3), round trips, short-buffer errors and panics against the reference; layouts the macro must reject are compiled separately and must fail; built-in impls (primitives, bool, tuples, arrays, heapless) and the public in-crate wire types are checked with proptest.",
   note="Not generated (judgement, see DESIGN.md): signed integers in sub-byte fields, multi-byte fields whose declared width differs from the type's size, implicit width for f32. Trusts the reference packer in harness/vlib/src/wiregen.rs."),
})

CLAIMED.update({
 "C09": dict(engine="simnet", category="exploration", design_ref="§5 C09",
   technique="property-based testing against a simulated EtherCAT segment with ground truth: generated networks (devices, stale addresses, groups, capacities), real MainDevice::init, results compared with the generated description and the simulated devices' registers",
   text="0..MAX+2 generated devices (stale/duplicate station addresses, 4/8 byte SII, with/without mailbox, DC level, names up to 64 bytes) are initialised by the real init() for MAX in {2,4,8,16} and three groups of generated capacity; on Ok every device must hold station address 0x1000+i, be in PRE-OP, and be reported exactly once with its own identity/name/alias/DC capability in the group the filter named; over-capacity must be a Capacity error; an empty / unprocessing network yields empty groups.",
   note="Relative to the simulator (harness/vlib/src/simnet.rs), which is written from the ETG specifications and shares no code with ethercrab. Virtual time."),
})

CLAIMED.update({
 "C11": dict(engine="simnet", category="fault_enumeration", design_ref="§5 C11",
   technique="property-based fault injection against the simulated segment: generated combinations of responders, expected counts and wire-altered counters for every checked primitive (exact oracle), and device absence / drop-out at generated datagram positions for composite operations (ground-truth oracle)",
   text="Primitives: receive, receive_slice, send_receive, send_receive_slice with FPxx/APxx/Bxx addressing, expectation default/with_wkc(0..3)/ignore_wkc, 0..3 devices answering and the counter altered on the wire: the result must be the working-counter error with exactly (expected, received) iff a check is configured and the counts differ, else exactly the returned bytes. Composites (EEPROM read, SDO read/write, register read, status, group transitions) run against a device that is absent throughout or drops out at datagram k and stays out: Ok is accepted only if the value equals the device's ground truth and the transfer / state change really happened; an absent device must give WorkingCounter{1,0}.",
   note="Ground truth (who serviced which datagram) is the simulator's. WrappedWrite::send is outside the quantifier."),
})

CLAIMED.update({
 "C10": dict(engine="simnet", category="exploration", design_ref="§5 C10",
   technique="property-based testing of generated transition paths against the simulated segment: per-device generated ESM scripts (accept after k polls, refuse, stall, fall back), generated grouping and frame sizes, forced AL status combinations in process data cycles; oracle = the simulator's log of AL control writes and AL status bytes served",
   text="Networks of 1..16 devices in 1..3 groups; 11 transition paths (into_init, into_pre_op_pdi, into_safe_op, into_pre_op, into_op in one or two calls, request_into_op, OP->SAFE-OP); frame sizes 60..1100 so that a status poll spans 1..6 frames. Ok => the last AL status every member served during the call carried the requested state; every member and no non-member received the request; a failing call returns within the transition timeout (virtual clock) and a call that never returns is a violation. tx_rx: subdevice_states[i] equals what member i served in that cycle, all_op / group_in_single_state / is_in_state agree with a reference over the four operational states for forced combinations. MainDevice::wait_for_state: Ok => every device served the state without error bit.",
   note="BOOT / none / combination status values are generated and only the state list is asserted for them (the summaries are documented as ambiguous there). A device reporting the requested state together with the error bit is generated only through forced cycle values, never in transitions."),
})

CLAIMED.update({
 "C08": dict(engine="simnet", category="exploration", design_ref="§5 C08",
   technique="property-based testing with an end-to-end marking experiment on the simulated segment: generated coherent devices (SII + object dictionary + sync managers + PDOs), generated grouping and image capacities; oracle = device descriptions (window lengths, sync manager registers) and the simulator's memory before/after one cycle with distinct random patterns in every output window and input memory",
   text="1..16 devices, 0..3 sync managers per direction of 1..3 PDOs of 1..4 entries of 1..64 bits, CoE or EEPROM PDO configuration, FMMU_EX, oversampling 2..8, adjacent or separate sync manager areas, lenient and strict devices, 1..3 groups with MAX_PDI in {8,32,128,1024}, SAFE-OP or OP. Checked: window lengths, windows pairwise disjoint and inside the image, inputs before outputs, sync manager registers as the device needs them, over-capacity => PdiTooLong, group images disjoint on the wire, and the marking experiment: every output pattern arrives in exactly that device's output sync manager memory and no other process RAM byte of any cycled device changes; every input window equals that device's input memory.",
   note="Devices of a group whose transition failed are left half configured by the MainDevice; nothing is asserted about their memory (the statement speaks about groups brought to SAFE-OP / OP). Strict devices have exactly the FMMUs their SII declares; a group that fails because such a device runs out of FMMUs is accepted as an error outcome."),
})

CLAIMED.update({
 "C07": dict(engine="simnet", category="exploration", design_ref="§5 C07",
   technique="property-based testing of one process data cycle against the simulated segment: generated image sizes / splits, device counts, all three cycle variants and every frame size (single-slot storages), judged from the frames on the simulated wire, the answers the simulator gave, the local image windows and the devices' memory; plus a reference packer for the frame count",
   text="Group built by real init + into_op (0..8 devices, image 0..2048 bytes); the cycle is run by a MainDevice whose frame size is generated (30..1514; half of the cases put the end of the image on the frame boundary +-1). Checked per cycle: LRW datagrams tile the image contiguously from its start, each frame within the frame size, no other datagrams than state checks and (DC variants) exactly one FRMW to the reference clock's 0x0910 as first datagram of the first frame; reported time == the simulator's answer; reported working counter == sum over the LRW answers; one state per device in group order equal to the AL status served; inputs part of the image == the bytes the network returned == the devices' input memory; outputs unchanged locally and delivered into the devices; frames used <= frames a straightforward packer needs. A cycle that never returns is reported by a watchdog (wall clock 120 s, cases take milliseconds).",
   note="The sync-system-time variant needs the reference clock address that lives in the MainDevice that ran init, so there init runs with the generated frame size too (>= 64)."),
})

CLAIMED.update({
 "C15": dict(engine="simnet", category="exploration", design_ref="§5 C15",
   technique="property-based testing against a CoE server inside the simulated device (written from ETG.1000.6 5.6, no ethercrab code): generated objects, mailbox sizes, upload policies (expedited / normal / segmented with generated segment lengths, with and without data in the initiate response), error replies and stale mailbox content; oracle = the object dictionary and the server's request log",
   text="sdo_read into u8/u16/i16/u32/u64/[u8;N]/String<N>/Vec<u8,N> returns exactly the object's bytes for every transfer type; objects larger than the destination give TooLong (normal / segmented); complete access sets the flag and returns the concatenated sub-indices; sdo_write delivers exactly one download with index, sub-index and the value's bytes; sdo_write_array / sdo_read_array traces; abort / emergency / reply for another index or sub-index map to the documented errors with the device's values; mailbox counters over all requests cycle 1..7.",
   note="Expedited values read into a smaller type (prefix semantics) are generated but not judged. Download is expedited only (the API refuses more than 4 bytes)."),
})

CLAIMED.update({
 "C16": dict(engine="simnet", category="fault_enumeration", design_ref="§5 C16",
   technique="property-based fault injection: the simulated device's reply mailbox is scripted with generated replies (field-mutated valid replies of every kind, truncations, random bytes, bursts, endless repetition) for every SDO / SDO-information entry point, in both arithmetic profiles; oracle = the call returns a value or an error: no panic (catch_unwind + panic site attribution), no non-termination (frame budget derived from the largest legitimate transfer)",
   text="Mailbox sizes 6..1024; entry points sdo_read (u8/u32/u64/[u8;N]/String<N>/Vec<u8,N>), sdo_write, sdo_read_array, sdo_write_array, sdo_info_object_description_list, sdo_info_object_quantities; scripts of 0..5 reply bursts with every header field either plausible or generated over its range. Both the release profile and a profile with overflow checks and debug assertions are run.",
   note="'Never reads outside the response' is covered through Rust's bounds checks (an out-of-range slice is a panic, reported here) plus the view-extent oracle of C01; no separate canary is placed behind the datagram. Known finding: the two SDO information entry points do not end under endless non-final replies."),
})

CLAIMED.update({
 "C17": dict(engine="simnet", category="exploration", design_ref="§5 C17",
   technique="property-based testing on generated trees of simulated devices with a symmetric link-delay model (ground truth = the simulator's frame arrival times), plus a metamorphic relation (one link made slower) and injected arbitrary link / port-time reports; oracle = DC registers 0x0920/0x0928 after init, propagation_delay(), FRMW targets",
   text="Trees of 1..24 devices (chains, forks, crosses, nested), link delays 10..2000 ns, DC none/ref-only/32/64 bit mixed, arbitrary clock offsets, devices whose 32 bit port time wraps while the frame is in their subtree, arbitrary master time. Checked: offset register == master time - latched receive time; delays never decrease in processing order; on pure chains delay == arrival time difference to the first DC device; in trees delay >= nearest DC ancestor's; the first DC device is the FRMW target; making one link slower does not change delays of devices the frame reaches earlier and (all-DC networks) moves that device's delay by exactly the same amount; a device that reports no link at all, or reports that leave more devices than downstream ports, end in an error; arbitrary link bits / port times never panic.",
   note="Reports with port 0 closed are not judged as impossible (the code supports other entry ports). Exact delays in trees are recorded, not asserted (the statement claims exactness for chains only). Known findings: non-DC device between DC devices on a chain; children of a cross junction."),
})

CLAIMED.update({
 "C18": dict(engine="simnet", category="exploration", design_ref="§5 C18",
   technique="property-based testing against simulated devices whose reference clock answers generated 64 bit times: generated periods / delays / shifts over 1 ns..u32::MAX and just above, every mix of DC capability and DcSync setting, both arithmetic profiles; oracle = the devices' DC sync registers (and every write attempt to them) after configure_dc_sync, and CycleInfo of tx_rx_dc recomputed in u128",
   text="Devices that lack DC or did not ask for sync are never written; the others get a start time that is a multiple of the period inside (ref + delay - period, ref + delay], the SYNC0 / SYNC1 cycle times and activation flags 0x03 / 0x07; SYNC0 period, start delay or SYNC1 period above u32::MAX ns are rejected (for period / delay: before any register is written); no DC device => DistributedClock(NoReference). Per cycle: dc_system_time == t, cycle_start_offset == t mod period, next_cycle_wait == period - offset + shift for t over all of u64.",
   note="Set-up is generated with reference time + delay <= u64::MAX (the stated interval must exist); shifts up to 2^33 ns; period 0 is outside the quantifier."),
})

CLAIMED.update({
 "C20": dict(engine="simnet", category="exploration", design_ref="§5 C20",
   technique="differential property-based testing: generated task sets run concurrently on one MainDevice under a generated schedule (which runnable task is polled at every await point) and generated per-frame latencies (responses overtake each other), and each task alone on an identically set up simulated segment; oracle = operation-by-operation equality of results, plus equality of the output memory / scratch registers the task leaves in its devices",
   text="2..8 devices in 2..3 groups brought to OP; 2..4 tasks on disjoint resources (process data cycles of one group with evolving outputs; register writes / reads, expedited and segmented SDO reads, SDO writes and EEPROM reads on one device); frame storage ample, just enough (sum of the frames each task can hold at once) or - as a negative control - half of that, where allocation failures are accepted and nothing else.",
   note="Interleaving is at await-point granularity on one thread (the finer-grained schedules of the PDU loop are explored by C01/C02/C06)."),
})

NOT_YET = {}

ALL = [f"C{i:02d}" for i in range(1,21)]

def main():
    checks=[]
    for pid in ALL:
        if pid not in CLAIMED: continue
        c=CLAIMED[pid]
        checks.append({
            "property_id": pid,
            "quick_cmd": f"./check {pid} quick",
            "thorough_cmd": f"./check {pid} thorough",
            "evidence_file": f"evidence/{pid}.json",
            "replay_cmd_template": f"./check {pid} replay {{path}}",
            "engine": c["engine"],
            "level_claimed": {"category": c["category"], "text": c["text"], "design_ref": c["design_ref"]},
            "level_note": c["note"],
            "technique": c["technique"],
        })
    na=[{"property_id":p,"reason":NOT_YET.get(p,"check not built yet in this round; the property is decidable by this technique family (see DESIGN.md §5) and is being added")} for p in ALL if p not in CLAIMED]
    m={
      "version":1,
      "setup_cmd":"cd /verif/harness && CARGO_NET_OFFLINE=true RUSTUP_TOOLCHAIN=1.88.0 cargo build --release --offline -p checks",
      "hooks":{
        "guard":"cargo feature verif-hooks of crate ethercrab",
        "enable":"harness/Cargo.toml depends on ethercrab = { path = \"/repo\", default-features = false, features = [\"verif-hooks\"] }; every ./check invocation runs cargo build, which rebuilds ethercrab from /repo's working tree",
        "baseline_off_cmd":"cd /repo && RUSTUP_TOOLCHAIN=1.88.0 cargo nextest run --workspace --no-fail-fast --test-threads 8 --offline",
        "source_commits":HOOK_COMMITS,
        "add_only":True,
      },
      "engines":[
        {"name":"pdusim","path":"harness/vlib","serves_properties":[p for p in CLAIMED if CLAIMED[p]["engine"]=="pdusim"],"kind_free_text":"PDU-loop harness: real frame builder / TX / RX driven op by op under a virtual clock, reference frame encoder, slot snapshots through verif-hooks"},
        {"name":"sii","path":"harness/vlib/src/sii.rs","serves_properties":["C12","C13","C14"],"kind_free_text":"independent SII EEPROM encoder + in-memory EepromDataProvider (4/8 byte chunks, read budget), driven through the verif-hooks SiiQueries facade"},
        {"name":"wiregen","path":"harness/vlib/src/wiregen.rs","serves_properties":["C19"],"kind_free_text":"derive-program generator, Rust source emitter, request/response executor, bit-level reference packer"},
        {"name":"simnet","path":"harness/vlib/src/simnet.rs","serves_properties":["C07","C08","C09","C10","C11","C15","C16","C17","C18","C20"],"kind_free_text":"simulated EtherCAT segment: frame walk over ESC register/SII/SM/FMMU/AL/mailbox(CoE)/DC models, deterministic executor under the virtual clock, coherent device generator"},
        {"name":"a2","path":"harness/vlib/src/a2.rs","serves_properties":["C01","C02","C06"],"kind_free_text":"yield-level scheduler: parties as ucontext coroutines on one thread, baton handed over at every verif-hooks point, schedules generated (random/PCT) or enumerated (pre-emption bounded), ownership monitor"},
      ],
      "checks":checks,
      "not_applicable":na,
      "notes":"All checks are property-based tests / fuzzers (proptest; seeded by VERIF_SEED). exit 0 held, 1 VIOLATION, 2 inconclusive. Known findings: /verif/known_findings.json.",
    }
    json.dump(m,open("/verif/MANIFEST.json","w"),indent=1)
    print("claimed:",[c["property_id"] for c in checks])

main()
