#!/bin/bash
# usage: tools/mut.sh <patch.diff> <command...>
# Applies a patch to /repo's working tree, runs the command, and always restores /repo.
set -u
patch="$(realpath "$1")"; shift
if [ -n "$(git -C /repo status --porcelain --untracked-files=no)" ]; then echo "/repo is dirty" >&2; exit 3; fi
git -C /repo apply "$patch" || { echo "patch does not apply" >&2; exit 3; }
trap 'git -C /repo checkout -- . ' EXIT
"$@"
rc=$?
exit $rc
