#!/bin/bash
# usage: tools/sens.sh <Cxx> [pattern]   — run every sensitivity/<Cxx>/*.diff against ./check <Cxx> quick
# prints one line per mutant: DETECTED/MISSED/BUILDFAIL, seconds, first signature
id="$1"; pat="${2:-}"
for m in /verif/sensitivity/$id/*${pat}*.diff; do
  start=$(date +%s.%N)
  out=$(/verif/tools/mut.sh "$m" /verif/check "$id" quick 2>&1); rc=$?
  end=$(date +%s.%N)
  secs=$(echo "$end - $start" | bc)
  sig=$(echo "$out" | grep -m1 "^violation" | cut -c1-160)
  case $rc in
    1) verdict=DETECTED ;;
    0) verdict=MISSED ;;
    *) verdict="RC$rc"; sig=$(echo "$out" | grep -m1 -E "^error" ) ;;
  esac
  printf "%-9s %6.1fs %-55s %s\n" "$verdict" "$secs" "$(basename $m)" "$sig"
done
rm -f /verif/replays/$id/violation-*
