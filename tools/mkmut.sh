#!/bin/bash
# usage: tools/mkmut.sh <out.diff> <file> <python-expr-old> <python-expr-new>   (exact string replace, must match once)
set -eu
out="$1"; file="$2"; old="$3"; new="$4"
python3 - "$file" "$old" "$new" <<'PY'
import sys
f,old,new=sys.argv[1:4]
p='/repo/'+f
s=open(p).read()
c=s.count(old)
assert c>=1, f"pattern not found in {f}"
s=s.replace(old,new,1)
open(p,'w').write(s)
PY
mkdir -p "$(dirname "$out")"
git -C /repo diff > "$out"
git -C /repo checkout -- .
echo "wrote $out"
