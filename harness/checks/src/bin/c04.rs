use serde_json::json;
use vlib::{c04, core::*};

fn main() {
    let args = parse_args();

    install_quiet_panic_hook();

    if let Some(path) = &args.replay {
        let (_kind, case): (String, c04::Case) = load_replay(path);
        let mut info = CaseInfo::default();
        let res = match catch(|| c04::run_case(&case, &mut info)) {
            Ok(r) => r,
            Err(p) => Err(Fail::new(format!("panic|{}", panic_site(&p)), p)),
        };

        finish_replay("C04", path, res);
    }

    let mut check = Check::new("C04", args);

    check.rule = c04::RULE.to_string();
    check.assumptions = vec![
        "reference encoder written from ETG.1000.4 frame/datagram layout (vlib::wire), shares no code with ethercrab".into(),
        "frames are built through the verif-hooks facade over CreatedFrame::{push_pdu, push_pdu_slice_rest, mark_sendable}; bytes are captured in the send_blocking closure".into(),
    ];

    let run = |c: &c04::Case, info: &mut CaseInfo| match catch(|| {
        let mut i2 = CaseInfo::default();
        let r = c04::run_case(c, &mut i2);
        (r, i2)
    }) {
        Ok((r, i2)) => {
            *info = i2;
            r
        }
        Err(p) => Err(Fail::new(format!("panic|{}", panic_site(&p)), p)),
    };

    let tier = check.tier();

    check.run_prop("programs", 16, tier.pick(25_000, 400_000), c04::case_strategy, run);

    if tier == Tier::Thorough {
        check.run_prop("programs-uniform-size", 16, 400_000, c04::case_strategy_uniform, run);
    }

    // Every frame size in turn (quick: every size below 160 and every 8th above; thorough: all)
    let per_size = tier.pick(6u64, 60);
    let seed = check.args.seed;
    let mut sizes_swept = 0u64;

    for size in 28u16..=1514 {
        if tier == Tier::Quick && size >= 160 && size % 8 != 2 {
            continue;
        }

        sizes_swept += 1;

        for k in 0..per_size {
            let case = sample_one(&c04::case_with_size(size), mix(seed, u64::from(size) * 1000 + k));
            let mut info = CaseInfo::default();
            let res = run(&case, &mut info);

            check.record_case("programs", &serde_json::to_value(&case).unwrap(), &info, res);
        }
    }

    check.coverage("frame_sizes_swept", json!(sizes_swept));
    check.coverage("frame_size_sweep_exhaustive", json!(tier == Tier::Thorough));
    check.finish();
}
