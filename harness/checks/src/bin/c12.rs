use vlib::{core::*, eeprom_checks as ec, sim_sii as ss};

fn main() {
    let args = parse_args();

    install_quiet_panic_hook();

    let run = |c: &ec::C12Case, info: &mut CaseInfo| match catch(|| {
        let mut i2 = CaseInfo::default();
        let r = ec::run_c12(c, &mut i2);
        (r, i2)
    }) {
        Ok((r, i2)) => {
            *info = i2;
            r
        }
        Err(p) => {
            let site = panic_site(&p);

            if is_repo_site(&site) {
                Err(Fail::new(format!("C12|panic|{site}"), p))
            } else {
                Err(Fail::new(format!("harness-panic|{site}"), p))
            }
        }
    };

    let run_dev = |c: &ss::SiiDevCase, info: &mut CaseInfo| match catch(|| {
        let mut i2 = CaseInfo::default();
        let r = ss::run_sii_dev(c, "C12", &mut i2);
        (r, i2)
    }) {
        Ok((r, i2)) => {
            *info = i2;
            r
        }
        Err(p) => {
            let site = panic_site(&p);

            if is_repo_site(&site) { Err(Fail::new(format!("C12|panic|{site}"), p)) } else { Err(Fail::new(format!("harness-panic|{site}"), p)) }
        }
    };

    install_crash_guard("C12");

    if let Some(path) = &args.replay {
        if replay_kind(path) == "sii-device-path" {
            let (_k, case): (String, ss::SiiDevCase) = load_replay(path);
            let mut info = CaseInfo::default();

            finish_replay("C12", path, run_dev(&case, &mut info));
        }

        let (_k, case): (String, ec::C12Case) = load_replay(path);
        let mut info = CaseInfo::default();

        finish_replay("C12", path, run(&case, &mut info));
    }

    let mut check = Check::new("C12", args);
    let tier = check.tier();

    check.rule = ec::C12_RULE.to_string();
    check.assumptions = vec![
        "images come from an independent SII encoder written from ETG.1000.6 / ETG.2010 (harness/vlib/src/sii.rs); only fields whose position is unambiguous in the specification are compared".into(),
        "queries run through the verif-hooks facade SiiQueries over an in-memory EepromDataProvider serving 4 or 8 byte chunks ; a second sub-run asks the same questions through the SII registers of a simulated device (command register, busy polling, command errors)".into(),
    ];

    check.run_prop("h4-images", 16, tier.pick(1_500, 300_000), ec::c12_case, run);
    // the same questions through the SII interface of a simulated device
    check.run_prop("sii-device-path", 16, tier.pick(300, 30_000), ss::sii_dev_case, run_dev);
    check.finish();
}
