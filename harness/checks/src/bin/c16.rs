use vlib::{core::*, sim_coe as ec};

fn main() {
    let args = parse_args();

    install_quiet_panic_hook();
    install_hang_watchdog("C16", 180, true);

    let run = |c: &ec::C16Case, info: &mut CaseInfo| match catch(|| {
        let mut i2 = CaseInfo::default();
        let r = ec::run_c16(c, &mut i2);
        (r, i2)
    }) {
        Ok((r, i2)) => {
            *info = i2;
            r
        }
        Err(p) => {
            let site = panic_site(&p);

            if is_repo_site(&site) {
                Err(Fail::new(format!("C16|panic|{site}"), p))
            } else {
                Err(Fail::new(format!("harness-panic|{site}"), p))
            }
        }
    };

    install_crash_guard("C16");

    if let Some(path) = &args.replay {
        if let Some(cands) = crash_candidates(path) {
            // Re-run every candidate; the crashing one takes the process down again, which the
            // crash guard reports as the violation.
            for (_k, c) in cands {
                if let Ok(case) = serde_json::from_value::<ec::C16Case>(c) {
                    let mut info = CaseInfo::default();

                    if let Err(f) = run(&case, &mut info) {
                        finish_replay("C16", path, Err(f));
                    }
                }
            }

            finish_replay("C16", path, Ok(()));
        }

        let (_k, case): (String, ec::C16Case) = load_replay(path);
        let mut info = CaseInfo::default();

        finish_replay("C16", path, run(&case, &mut info));
    }

    let mut check = Check::new("C16", args);
    check.level = "fault_enumeration";
    let tier = check.tier();

    check.rule = ec::C16_RULE.to_string();
    check.assumptions = vec![
        "the device is simulated; in scripted mode its CoE server is switched off and the reply mailbox content is the generated script".into(),
        "reads outside the response are excluded by construction rather than observed: all accesses go through bounds-checked slices of the ReceivedPdu view whose extent C01 checks; a panic on an out-of-range slice is reported as a violation here".into(),
        "both arithmetic profiles (release, and overflow-checks + debug-assertions) are run and merged".into(),
    ];


    check.run_prop("scripted-mailbox", 16, tier.pick(2_000, 50_000), ec::c16_case, run);
    check.merge_profile_child("checked");
    check.finish();
}
