use vlib::{core::*, sim_checks as sc};

fn guard<C>(prop: &'static str, f: impl Fn(&C, &mut CaseInfo) -> Result<(), Fail>) -> impl Fn(&C, &mut CaseInfo) -> Result<(), Fail> {
    move |c, info| match catch(|| {
        let mut i2 = CaseInfo::default();
        let r = f(c, &mut i2);
        (r, i2)
    }) {
        Ok((r, i2)) => {
            *info = i2;
            r
        }
        Err(p) => {
            let site = panic_site(&p);

            if is_repo_site(&site) {
                Err(Fail::new(format!("{prop}|panic|{site}"), p))
            } else {
                Err(Fail::new(format!("harness-panic|{site}"), p))
            }
        }
    }
}

fn main() {
    let args = parse_args();

    install_quiet_panic_hook();
    install_hang_watchdog("C11", 120, false);

    if let Some(path) = &args.replay {
        let kind = replay_kind(path);
        let mut info = CaseInfo::default();

        if kind == "composite" {
            let (_k, case): (String, sc::C11Comp) = load_replay(path);
        hang_begin("replay", &case);

            finish_replay("C11", path, guard("C11", sc::run_c11_comp)(&case, &mut info));
        } else {
            let (_k, case): (String, sc::C11Prim) = load_replay(path);
        hang_begin("replay", &case);

            finish_replay("C11", path, guard("C11", sc::run_c11_prim)(&case, &mut info));
        }
    }

    let mut check = Check::new("C11", args);
    check.level = "fault_enumeration";
    let tier = check.tier();

    check.rule = sc::C11_RULE.to_string();
    check.assumptions = vec![
        "the number of devices that serviced a datagram is the simulator's ground truth (harness/vlib/src/simnet.rs)".into(),
        "WrappedWrite::send is outside the quantifier and never judged".into(),
    ];

    check.run_prop("primitive", 16, tier.pick(2_000, 400_000), sc::c11_prim, guard("C11", sc::run_c11_prim));
    check.run_prop("composite", 16, tier.pick(300, 40_000), sc::c11_comp, guard("C11", sc::run_c11_comp));
    check.finish();
}
