use vlib::{core::*, eeprom_checks as ec, sim_sii as ss};

fn main() {
    let args = parse_args();

    install_quiet_panic_hook();

    let run = |c: &ec::C13Case, info: &mut CaseInfo| match catch(|| {
        let mut i2 = CaseInfo::default();
        let r = ec::run_c13(c, &mut i2);
        (r, i2)
    }) {
        Ok((r, i2)) => {
            *info = i2;
            r
        }
        Err(p) => Err(Fail::new(format!("harness-panic|{}", panic_site(&p)), p)),
    };

    let run_dev = |c: &ss::C13DevCase, info: &mut CaseInfo| match catch(|| {
        let mut i2 = CaseInfo::default();
        let r = ss::run_c13_dev(c, &mut i2);
        (r, i2)
    }) {
        Ok((r, i2)) => {
            *info = i2;
            r
        }
        Err(p) => {
            let site = panic_site(&p);

            if is_repo_site(&site) { Err(Fail::new(format!("C13|panic|{site}|device-init"), p)) } else { Err(Fail::new(format!("harness-panic|{site}"), p)) }
        }
    };

    install_crash_guard("C13");
    install_hang_watchdog("C13", 180, true);

    if let Some(path) = &args.replay {
        if let Some(cands) = crash_candidates(path) {
            // Re-run every candidate; the crashing one takes the process down again, which the
            // crash guard reports as the violation.
            for (_k, c) in cands {
                if let Ok(case) = serde_json::from_value::<ec::C13Case>(c) {
                    let mut info = CaseInfo::default();

                    if let Err(f) = run(&case, &mut info) {
                        finish_replay("C13", path, Err(f));
                    }
                }
            }

            finish_replay("C13", path, Ok(()));
        }

        if replay_kind(path) == "sii-device-init" {
            let (_k, case): (String, ss::C13DevCase) = load_replay(path);
            let mut info = CaseInfo::default();

            hang_begin("replay", &case);
            finish_replay("C13", path, run_dev(&case, &mut info));
        }

        let (_k, case): (String, ec::C13Case) = load_replay(path);
        let mut info = CaseInfo::default();

        finish_replay("C13", path, run(&case, &mut info));
    }

    let mut check = Check::new("C13", args);
    let tier = check.tier();

    check.rule = ec::C13_RULE.to_string();
    check.assumptions = vec![
        "termination is decided, not timed: the in-memory provider counts chunk reads; more than 65536*33 reads in one query means the deterministic category walk revisited a (word address, empty-category count) state and never ends".into(),
        "queries run through the verif-hooks facade SiiQueries over an in-memory provider; both arithmetic profiles (release, and overflow-checks + debug-assertions) are run and merged".into(),
    ];

    check.run_prop("h4-arbitrary-images", 16, tier.pick(1_500, 200_000), ec::c13_case, run);
    // the same images inside a simulated device: initialisation and configuration must end
    check.run_prop("sii-device-init", 16, tier.pick(150, 15_000), ss::c13_dev_case, run_dev);
    check.merge_profile_child("checked");
    check.finish();
}
