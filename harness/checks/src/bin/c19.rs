//! C19 — derived wire encodings match their declared layout and round-trip.
//!
//! Generates a crate of derive programs, compiles it against /repo/ethercrab-wire, and drives the
//! compiled executor with generated values and buffers, comparing with the reference packer.

use serde::{Deserialize, Serialize};
use serde_json::json;
use std::{
    io::{Read, Write},
    path::{Path, PathBuf},
    process::{Child, ChildStdin, ChildStdout, Command, Stdio},
};
use vlib::{
    core::*,
    ensure, fail,
    wiregen::{self as wg, Batch, RefErr, Rng, Ty, TypeDef, Val},
};

#[derive(Serialize, Deserialize, Clone, Debug)]
struct ReplayCase {
    batch: Batch,
    type_index: usize,
    /// "pack" | "unpack"
    op: String,
    value: Option<Val>,
    buffer: Option<Vec<u8>>,
    dest_len: usize,
}

struct Exec {
    child: Child,
    stdin: ChildStdin,
    stdout: ChildStdout,
}

impl Exec {
    fn call(&mut self, ti: u32, op: u32, aux: u32, payload: &[u8]) -> Vec<u8> {
        let mut req = Vec::with_capacity(16 + payload.len());

        req.extend_from_slice(&ti.to_le_bytes());
        req.extend_from_slice(&op.to_le_bytes());
        req.extend_from_slice(&aux.to_le_bytes());
        req.extend_from_slice(&(payload.len() as u32).to_le_bytes());
        req.extend_from_slice(payload);

        self.stdin.write_all(&req).expect("executor stdin");
        self.stdin.flush().expect("flush");

        let mut l = [0u8; 4];

        if self.stdout.read_exact(&mut l).is_err() {
            // executor died (abort / segfault)
            return vec![3];
        }

        let mut out = vec![0u8; u32::from_le_bytes(l) as usize];

        self.stdout.read_exact(&mut out).expect("executor response");

        out
    }
}

fn build_crate(dir: &Path, batch: &Batch) -> Result<PathBuf, String> {
    std::fs::create_dir_all(dir.join("src")).map_err(|e| e.to_string())?;
    std::fs::write(dir.join("Cargo.toml"), wg::cargo_toml()).map_err(|e| e.to_string())?;
    std::fs::write(dir.join("src/lib.rs"), wg::emit_lib(batch)).map_err(|e| e.to_string())?;
    std::fs::write(dir.join("src/main.rs"), wg::MAIN_RS).map_err(|e| e.to_string())?;

    let _ = std::fs::copy("/repo/Cargo.lock", dir.join("Cargo.lock"));

    let target = PathBuf::from(VERIF_ROOT).join("harness/target/wiregen-target");

    let out = Command::new("cargo")
        .arg("build")
        .arg("--offline")
        .arg("--quiet")
        .current_dir(dir)
        .env("CARGO_TARGET_DIR", &target)
        .env("CARGO_NET_OFFLINE", "true")
        .env("RUSTFLAGS", "-Awarnings")
        .output()
        .map_err(|e| e.to_string())?;

    if !out.status.success() {
        return Err(String::from_utf8_lossy(&out.stderr).chars().take(6000).collect());
    }

    Ok(target.join("debug/wiregen-exec"))
}

fn spawn(exe: &Path) -> Exec {
    let mut child = Command::new(exe)
        .stdin(Stdio::piped())
        .stdout(Stdio::piped())
        .stderr(Stdio::null())
        .spawn()
        .expect("spawn executor");

    Exec {
        stdin: child.stdin.take().unwrap(),
        stdout: child.stdout.take().unwrap(),
        child,
    }
}

fn toks_bytes(v: &Val) -> Vec<u8> {
    let mut t = Vec::new();

    wg::flatten(v, &mut t);

    t.iter().flat_map(|x| x.to_le_bytes()).collect()
}

fn decode_toks(b: &[u8]) -> Vec<i128> {
    b.chunks_exact(16).map(|c| i128::from_le_bytes(c.try_into().unwrap())).collect()
}

fn classes(batch: &Batch, ti: usize) -> Vec<&'static str> {
    let mut c = Vec::new();

    match &batch.types[ti] {
        TypeDef::Struct(s) => {
            let mut pos = 0;

            for f in &s.fields {
                if f.skip {
                    c.push("wire-skip-field");
                    continue;
                }

                pos += f.pre_skip;

                if f.bits < 8 && pos % 8 != 0 {
                    c.push("sub-byte-at-nonzero-offset");
                }

                if f.pre_skip > 0 || f.post_skip > 0 {
                    c.push("skips");
                }

                match &f.ty {
                    Ty::Named(n) => match &batch.types[*n] {
                        TypeDef::Struct(_) => c.push("nested-struct"),
                        TypeDef::Enum(_) => c.push("nested-enum"),
                    },
                    Ty::Arr(_, _) => c.push("array-of-sized"),
                    Ty::Bytes(_) => c.push("byte-array"),
                    _ => {}
                }

                pos += f.bits + f.post_skip;
            }

            if s.total_bits % 8 != 0 {
                c.push("partial-last-byte");
            }
        }
        TypeDef::Enum(e) => {
            c.push("enum");

            if e.variants.iter().any(|v| v.catch_all) {
                c.push("enum-catch-all");
            } else if e.variants.iter().any(|v| v.default) {
                c.push("enum-default");
            } else {
                c.push("enum-fallthrough-error");
            }

            if e.variants.iter().any(|v| !v.alternatives.is_empty()) {
                c.push("enum-alternatives");
            }

            if e.variants.iter().any(|v| v.disc.is_none() && !v.catch_all) {
                c.push("enum-implicit-discriminant");
            }
        }
    }

    c.sort();
    c.dedup();

    c
}

/// Judge one pack operation. Returns Err(Fail) on disagreement.
fn judge_pack(batch: &Batch, ti: usize, v: &Val, dest_len: usize, resp: &[u8]) -> Result<(), Fail> {
    let expect = wg::ref_pack(batch, ti, v);
    let plen = batch.packed_len(ti);

    match resp.first() {
        Some(2) => return Err(Fail::new("C19|panic|pack", format!("pack of T{ti} {v:?} panicked"))),
        Some(3) => return Err(Fail::new("C19|crash|pack", format!("executor died packing T{ti} {v:?}"))),
        Some(0) => {}
        other => return Err(Fail::new("harness|exec-protocol", format!("unexpected response {other:?}"))),
    }

    let mut p = 1usize;
    let rd_u32 = |p: &mut usize| {
        let v = u32::from_le_bytes(resp[*p..*p + 4].try_into().unwrap()) as usize;
        *p += 4;
        v
    };

    let n1 = rd_u32(&mut p);
    let packed = &resp[p..p + n1];

    p += n1;

    if packed != expect.as_slice() {
        let at = packed.iter().zip(expect.iter()).position(|(a, b)| a != b).unwrap_or(0);

        return Err(Fail::new(
            "C19|pack-differs",
            format!("T{ti} pack({v:?}) = {} but the declared layout gives {} (first difference at byte {at})", vlib::util::hex(packed), vlib::util::hex(&expect)),
        ));
    }

    let st = resp[p];

    p += 1;

    if st == 0 {
        let n2 = rd_u32(&mut p);
        let sl = &resp[p..p + n2];

        p += n2;

        if dest_len < plen {
            return Err(Fail::new("C19|short-destination-accepted", format!("T{ti} pack_to_slice into {dest_len} bytes (needs {plen}) returned Ok")));
        }

        if sl != expect.as_slice() {
            return Err(Fail::new("C19|pack-to-slice-differs", format!("T{ti} pack_to_slice gives {} expected {}", vlib::util::hex(sl), vlib::util::hex(&expect))));
        }
    } else {
        let code = resp[p];

        p += 1;

        if dest_len >= plen {
            return Err(Fail::new("C19|pack-to-slice-refused", format!("T{ti} pack_to_slice into {dest_len} bytes (needs {plen}) failed with code {code}")));
        }

        if code != 3 {
            return Err(Fail::new("C19|short-destination-wrong-error", format!("T{ti} pack_to_slice into a short buffer: error code {code}, expected WriteBufferTooShort")));
        }
    }

    let n3 = rd_u32(&mut p);
    let dest = &resp[p..p + n3];

    p += n3;

    // Bytes of the destination beyond the packed length stay untouched
    if dest_len >= plen && dest[plen..].iter().any(|b| *b != 0xee) {
        return Err(Fail::new("C19|pack-to-slice-overrun", format!("T{ti} pack_to_slice wrote beyond its {plen} bytes")));
    }

    if dest_len < plen && dest.iter().any(|b| *b != 0xee) {
        return Err(Fail::new("C19|short-destination-written", format!("T{ti} refused pack_to_slice still wrote into the destination")));
    }

    let c = rd_u32(&mut p);
    let f = rd_u32(&mut p);

    if c != plen || f != plen {
        return Err(Fail::new("C19|packed-len", format!("T{ti} PACKED_LEN {c} / packed_len() {f}, declared {plen}")));
    }

    Ok(())
}

fn judge_unpack(batch: &Batch, ti: usize, buf: &[u8], resp: &[u8], expect_override: Option<&Val>) -> Result<(), Fail> {
    let expect = wg::ref_unpack(batch, ti, buf);

    match resp.first() {
        Some(2) => Err(Fail::new("C19|panic|unpack", format!("unpack of T{ti} from {} panicked", vlib::util::hex(buf)))),
        Some(3) => Err(Fail::new("C19|crash|unpack", format!("executor died unpacking T{ti} from {}", vlib::util::hex(buf)))),
        Some(0) => {
            let toks = decode_toks(&resp[1..]);

            match expect {
                Ok(v) => {
                    let mut et = Vec::new();

                    wg::flatten(&v, &mut et);

                    if toks != et {
                        return Err(Fail::new(
                            if expect_override.is_some() { "C19|round-trip" } else { "C19|unpack-differs" },
                            format!("T{ti} unpack({}) gives fields {toks:?} but the declared layout gives {et:?}", vlib::util::hex(buf)),
                        ));
                    }

                    if let Some(orig) = expect_override {
                        let mut ot = Vec::new();

                        wg::flatten(orig, &mut ot);

                        if toks != ot {
                            return Err(Fail::new("C19|round-trip", format!("T{ti}: unpack(pack(v)) = {toks:?}, v = {ot:?}")));
                        }
                    }

                    Ok(())
                }
                Err(e) => Err(Fail::new(
                    "C19|unpack-accepted-invalid",
                    format!("T{ti} unpack({}) returned Ok({toks:?}) but the declared layout says {e:?}", vlib::util::hex(buf)),
                )),
            }
        }
        Some(1) => {
            let code = resp[1];

            match expect {
                Err(RefErr::ReadBufferTooShort) if code == 1 => Ok(()),
                Err(RefErr::InvalidValue) if code == 2 => Ok(()),
                Err(e) => Err(Fail::new("C19|unpack-wrong-error", format!("T{ti} unpack({}) failed with code {code}, the declared layout says {e:?}", vlib::util::hex(buf)))),
                Ok(v) => Err(Fail::new(
                    if expect_override.is_some() { "C19|round-trip" } else { "C19|unpack-refused" },
                    format!("T{ti} unpack({}) failed with code {code} but the declared layout decodes it to {v:?}", vlib::util::hex(buf)),
                )),
            }
        }
        other => Err(Fail::new("harness|exec-protocol", format!("unexpected response {other:?}"))),
    }
}

/// Restrict a batch to the type `ti` and what it depends on (for a small replay file).
fn prune(batch: &Batch, ti: usize) -> (Batch, usize) {
    fn deps(b: &Batch, ty: &Ty, out: &mut Vec<usize>) {
        match ty {
            Ty::Named(i) => {
                if !out.contains(i) {
                    out.push(*i);

                    if let TypeDef::Struct(s) = &b.types[*i] {
                        for f in &s.fields {
                            deps(b, &f.ty, out);
                        }
                    }
                }
            }
            Ty::Arr(t, _) => deps(b, t, out),
            _ => {}
        }
    }

    let mut keep = Vec::new();

    deps(batch, &Ty::Named(ti), &mut keep);
    keep.sort();

    fn remap(ty: &Ty, keep: &[usize]) -> Ty {
        match ty {
            Ty::Named(i) => Ty::Named(keep.iter().position(|k| k == i).unwrap()),
            Ty::Arr(t, n) => Ty::Arr(Box::new(remap(t, keep)), *n),
            t => t.clone(),
        }
    }

    let types = keep
        .iter()
        .map(|i| match &batch.types[*i] {
            TypeDef::Struct(s) => {
                let mut s = s.clone();

                for f in &mut s.fields {
                    f.ty = remap(&f.ty, &keep);
                }

                TypeDef::Struct(s)
            }
            e => e.clone(),
        })
        .collect();

    (Batch { types }, keep.iter().position(|k| *k == ti).unwrap())
}

fn run_batch(check: &mut Check, batch_seed: u64, n_types: usize, values_per_type: usize, programs: &mut u64) {
    let batch = wg::gen_batch(batch_seed, n_types);
    let dir = PathBuf::from(VERIF_ROOT).join(format!("harness/target/wiregen/{}-{batch_seed:x}", check.args.tier.name()));

    let exe = match build_crate(&dir, &batch) {
        Ok(e) => e,
        Err(log) => {
            // A program inside the grammar that does not compile: either the macro rejects or
            // mis-expands a legal layout, or the generator left the grammar. Both need a human
            // look; it is never reported as a property violation automatically.
            eprintln!("generated crate does not compile:\n{log}");
            std::process::exit(2);
        }
    };

    *programs += n_types as u64;

    let mut ex = spawn(&exe);
    let mut r = Rng(mix(batch_seed, 77));

    for ti in 0..batch.types.len() {
        let derive = batch.types[ti].derive();
        let plen = batch.packed_len(ti);
        let cls = classes(&batch, ti);

        for k in 0..values_per_type {
            let mut info = CaseInfo::default();

            for c in &cls {
                info.label(*c);
            }

            info.nontrivial = cls.iter().any(|c| matches!(*c, "sub-byte-at-nonzero-offset" | "skips" | "nested-struct" | "nested-enum" | "enum-catch-all" | "enum-default" | "enum-fallthrough-error"));

            let mut result: Result<(), Fail> = Ok(());
            let mut rc = ReplayCase {
                batch: Batch { types: vec![] },
                type_index: 0,
                op: String::new(),
                value: None,
                buffer: None,
                dest_len: 0,
            };

            // ---- pack (+ round trip)
            if derive.writes() {
                let in_range = k % 4 != 3;
                let v = wg::gen_val(&mut r, &batch, &Ty::Named(ti), None, in_range);
                let dest_len = match k % 5 {
                    0 => plen,
                    1 => plen.saturating_sub(1 + r.below(3)),
                    2 => plen + 1 + r.below(3),
                    3 => 0,
                    _ => plen + 8,
                };

                let resp = ex.call(ti as u32, 1, dest_len as u32, &toks_bytes(&v));

                result = judge_pack(&batch, ti, &v, dest_len, &resp);

                if result.is_ok() && derive.reads() && in_range {
                    let packed = wg::ref_pack(&batch, ti, &v);
                    let resp = ex.call(ti as u32, 0, 0, &packed);
                    let norm = wg::normalise(&batch, ti, &v);

                    result = judge_unpack(&batch, ti, &packed, &resp, Some(&norm));
                }

                if result.is_err() {
                    rc.op = "pack".into();
                    rc.value = Some(v);
                    rc.dest_len = dest_len;
                }
            }

            // ---- unpack of an arbitrary buffer
            if result.is_ok() && derive.reads() {
                let len = match k % 6 {
                    0 => plen,
                    1 => plen.saturating_sub(1 + r.below(3)),
                    2 => plen + 1 + r.below(3),
                    3 => r.below(plen + 1),
                    _ => plen,
                };

                let mut buf: Vec<u8> = (0..len).map(|_| r.next() as u8).collect();

                // bias: all ones / zeros / single bit
                match r.below(8) {
                    0 => buf.iter_mut().for_each(|b| *b = 0xff),
                    1 => buf.iter_mut().for_each(|b| *b = 0),
                    2 => {
                        buf.iter_mut().for_each(|b| *b = 0);

                        if !buf.is_empty() {
                            let bit = r.below(buf.len() * 8);

                            buf[bit / 8] |= 1 << (bit % 8);
                        }
                    }
                    _ => {}
                }

                let resp = ex.call(ti as u32, 0, 0, &buf);

                result = judge_unpack(&batch, ti, &buf, &resp, None);

                if result.is_err() {
                    rc.op = "unpack".into();
                    rc.buffer = Some(buf);
                }
            }

            let case = if result.is_err() {
                let (pb, pi) = prune(&batch, ti);

                rc.batch = pb;
                rc.type_index = pi;

                // Re-base the value onto the pruned batch is unnecessary: values are positional
                serde_json::to_value(&rc).unwrap()
            } else if check.stats.samples.len() < 4 && info.nontrivial && k == 0 {
                let (pb, pi) = prune(&batch, ti);

                json!({"type_definition_source": wg::emit_lib(&pb).lines().take(40).collect::<Vec<_>>(), "type_index": pi})
            } else {
                json!({"batch_seed": batch_seed, "type": ti, "k": k})
            };

            check.record_case("wiregen", &case, &info, result);
        }

        if ex.child.try_wait().ok().flatten().is_some() {
            // executor died: restart for the remaining types
            ex = spawn(&exe);
        }
    }

    drop(ex.stdin);

    let _ = ex.child.wait();
    let _ = std::fs::remove_dir_all(&dir);
}

fn replay(path: &Path) -> ! {
    let (_k, rc): (String, ReplayCase) = load_replay(path);
    let dir = PathBuf::from(VERIF_ROOT).join(format!("harness/target/wiregen/replay-{}", std::process::id()));

    let exe = match build_crate(&dir, &rc.batch) {
        Ok(e) => e,
        Err(log) => {
            eprintln!("replay crate does not compile:\n{log}");
            std::process::exit(2);
        }
    };

    let mut ex = spawn(&exe);
    let ti = rc.type_index;

    let res = if rc.op == "pack" {
        let v = rc.value.clone().expect("value");
        let resp = ex.call(ti as u32, 1, rc.dest_len as u32, &toks_bytes(&v));
        let mut res = judge_pack(&rc.batch, ti, &v, rc.dest_len, &resp);

        if res.is_ok() && rc.batch.types[ti].derive().reads() {
            let packed = wg::ref_pack(&rc.batch, ti, &v);
            let resp = ex.call(ti as u32, 0, 0, &packed);

            res = judge_unpack(&rc.batch, ti, &packed, &resp, Some(&wg::normalise(&rc.batch, ti, &v)));
        }

        res
    } else {
        let buf = rc.buffer.clone().expect("buffer");
        let resp = ex.call(ti as u32, 0, 0, &buf);

        judge_unpack(&rc.batch, ti, &buf, &resp, None)
    };

    let _ = std::fs::remove_dir_all(&dir);

    finish_replay("C19", path, res)
}

// ---------------------------------------------------------------------------------------------
// Built-in impls and the in-crate wire types reachable through the public API
// ---------------------------------------------------------------------------------------------

#[derive(Serialize, Deserialize, Clone, Debug, PartialEq, Eq, Hash)]
enum Builtin {
    /// (kind 0..=9: u8 u16 u32 u64 i8 i16 i32 i64 f32 f64), raw value, buffer length delta
    Prim { kind: u8, raw: u64, trunc: u8, extra: u8 },
    Bool { byte: u8 },
    Tuple { a: u32, b: u8, c: u16, buf_len: u8 },
    ByteArray { bytes: [u8; 5], buf_len: u8 },
    U16Array { vals: [u16; 3], buf_len: u8 },
    HVec { bytes: Vec<u8> },
    HString { bytes: Vec<u8> },
    State { byte: u8 },
    AlStatus { code: u16 },
    Identity { v: [u32; 4], buf_len: u8 },
    Counts { v: [u16; 5], buf_len: u8 },
}

fn builtin_strategy() -> impl proptest::strategy::Strategy<Value = Builtin> {
    use proptest::prelude::*;

    prop_oneof![
        4 => (0u8..10, prop_oneof![any::<u64>(), Just(0u64), Just(u64::MAX), Just(1u64 << 63)], 0u8..9, 0u8..4).prop_map(|(kind, raw, trunc, extra)| Builtin::Prim { kind, raw, trunc, extra }),
        1 => any::<u8>().prop_map(|byte| Builtin::Bool { byte }),
        1 => (any::<u32>(), any::<u8>(), any::<u16>(), 0u8..12).prop_map(|(a, b, c, buf_len)| Builtin::Tuple { a, b, c, buf_len }),
        1 => (any::<[u8; 5]>(), 0u8..9).prop_map(|(bytes, buf_len)| Builtin::ByteArray { bytes, buf_len }),
        1 => (any::<[u16; 3]>(), 0u8..10).prop_map(|(vals, buf_len)| Builtin::U16Array { vals, buf_len }),
        1 => prop::collection::vec(any::<u8>(), 0..14).prop_map(|bytes| Builtin::HVec { bytes }),
        1 => prop_oneof![prop::collection::vec(0x20u8..0x7f, 0..14), prop::collection::vec(any::<u8>(), 0..14)].prop_map(|bytes| Builtin::HString { bytes }),
        1 => any::<u8>().prop_map(|byte| Builtin::State { byte }),
        1 => prop_oneof![0u16..0x60, any::<u16>()].prop_map(|code| Builtin::AlStatus { code }),
        1 => (any::<[u32; 4]>(), 0u8..20).prop_map(|(v, buf_len)| Builtin::Identity { v, buf_len }),
        1 => (any::<[u16; 5]>(), 0u8..14).prop_map(|(v, buf_len)| Builtin::Counts { v, buf_len }),
    ]
}

fn judge_builtin(c: &Builtin, info: &mut CaseInfo) -> Result<(), Fail> {
    use ethercrab_wire::{EtherCrabWireRead, EtherCrabWireSized, EtherCrabWireWrite, EtherCrabWireWriteSized, WireError};

    info.nontrivial = true;

    macro_rules! prim {
        ($t:ty, $raw:expr, $trunc:expr, $extra:expr) => {{
            const N: usize = std::mem::size_of::<$t>();
            let le = &$raw.to_le_bytes()[..N];
            let v = <$t>::from_le_bytes(le.try_into().unwrap());

            ensure!(v.pack().as_ref() == le, "C19|builtin-pack", "{} pack of {:?}", stringify!($t), le);
            ensure!(<$t as EtherCrabWireSized>::PACKED_LEN == N && v.packed_len() == N, "C19|builtin-len", "{} packed length", stringify!($t));

            let mut buf = le.to_vec();

            buf.extend(std::iter::repeat_n(0xabu8, usize::from($extra)));

            let got = <$t>::unpack_from_slice(&buf).map(|x| x.to_le_bytes().to_vec());

            ensure!(got == Ok(le.to_vec()), "C19|builtin-unpack", "{} unpack of {:?} gives {:?}", stringify!($t), buf, got);

            let short = &le[..N.min(usize::from($trunc)).min(N - 1)];

            ensure!(<$t>::unpack_from_slice(short) == Err(WireError::ReadBufferTooShort), "C19|builtin-short-read", "{} unpack of {} bytes", stringify!($t), short.len());

            let mut dst = vec![0xeeu8; short.len()];

            ensure!(v.pack_to_slice(&mut dst) == Err(WireError::WriteBufferTooShort), "C19|builtin-short-write", "{} pack_to_slice into {} bytes", stringify!($t), dst.len());

            let mut dst = vec![0xeeu8; N + 2];

            ensure!(v.pack_to_slice(&mut dst).map(|s| s.to_vec()) == Ok(le.to_vec()) && dst[N..] == [0xee, 0xee], "C19|builtin-pack-to-slice", "{} pack_to_slice", stringify!($t));
        }};
    }

    match c {
        Builtin::Prim { kind, raw, trunc, extra } => {
            info.label("primitive");

            match kind {
                0 => prim!(u8, raw, *trunc, *extra),
                1 => prim!(u16, raw, *trunc, *extra),
                2 => prim!(u32, raw, *trunc, *extra),
                3 => prim!(u64, raw, *trunc, *extra),
                4 => prim!(i8, raw, *trunc, *extra),
                5 => prim!(i16, raw, *trunc, *extra),
                6 => prim!(i32, raw, *trunc, *extra),
                7 => prim!(i64, raw, *trunc, *extra),
                8 => {
                    let le = &raw.to_le_bytes()[..4];
                    let v = f32::from_le_bytes(le.try_into().unwrap());

                    ensure!(v.pack() == le, "C19|builtin-pack", "f32 pack");
                    ensure!(f32::unpack_from_slice(le).map(|x| x.to_bits()) == Ok(v.to_bits()), "C19|builtin-unpack", "f32 unpack");
                    ensure!(f32::unpack_from_slice(&le[..3]) == Err(WireError::ReadBufferTooShort), "C19|builtin-short-read", "f32");
                }
                _ => {
                    let le = raw.to_le_bytes();
                    let v = f64::from_le_bytes(le);

                    ensure!(v.pack() == le, "C19|builtin-pack", "f64 pack");
                    ensure!(f64::unpack_from_slice(&le).map(|x| x.to_bits()) == Ok(v.to_bits()), "C19|builtin-unpack", "f64 unpack");
                    ensure!(f64::unpack_from_slice(&le[..7]) == Err(WireError::ReadBufferTooShort), "C19|builtin-short-read", "f64");
                }
            }
        }
        Builtin::Bool { byte } => {
            info.label("bool");

            ensure!(bool::unpack_from_slice(&[*byte]) == Ok(*byte > 0), "C19|builtin-unpack", "bool unpack of {byte:#x}");
            ensure!(bool::unpack_from_slice(&[]) == Err(WireError::ReadBufferTooShort), "C19|builtin-short-read", "bool");
            ensure!(true.pack() == [0xff] && false.pack() == [0x00], "C19|builtin-pack", "bool pack");
        }
        Builtin::Tuple { a, b, c, buf_len } => {
            info.label("tuple");

            let mut expect = a.to_le_bytes().to_vec();

            expect.push(*b);
            expect.extend_from_slice(&c.to_le_bytes());

            let mut dst = [0u8; 16];

            ensure!((*a, *b, *c).pack_to_slice_unchecked(&mut dst) == expect.as_slice(), "C19|builtin-pack", "tuple pack");

            let n = usize::from(*buf_len).min(expect.len() + 3);
            let mut buf = expect.clone();

            buf.resize(expect.len() + 3, 0x5a);
            buf.truncate(n);

            let got = catch(|| <(u32, u8, u16)>::unpack_from_slice(&buf));

            match got {
                Err(p) => fail!("C19|panic|tuple-unpack", "tuple unpack of {} bytes panicked: {p}", buf.len()),
                Ok(r) => {
                    if n >= expect.len() {
                        ensure!(r == Ok((*a, *b, *c)), "C19|builtin-unpack", "tuple unpack gives {r:?}");
                    } else {
                        ensure!(r == Err(WireError::ReadBufferTooShort), "C19|builtin-short-read", "tuple unpack of {n} bytes gives {r:?}");
                    }
                }
            }
        }
        Builtin::ByteArray { bytes, buf_len } => {
            info.label("u8-array");

            ensure!(bytes.pack_to_slice_unchecked(&mut [0u8; 8]) == bytes, "C19|builtin-pack", "[u8;5] pack");

            let mut buf = bytes.to_vec();

            buf.resize(8, 0x11);
            buf.truncate(usize::from(*buf_len).min(8));

            let r = <[u8; 5]>::unpack_from_slice(&buf);

            if buf.len() >= 5 {
                ensure!(r == Ok(*bytes), "C19|builtin-unpack", "[u8;5] unpack {r:?}");
            } else {
                ensure!(r == Err(WireError::ReadBufferTooShort), "C19|builtin-short-read", "[u8;5] unpack of {} bytes {r:?}", buf.len());
            }
        }
        Builtin::U16Array { vals, buf_len } => {
            info.label("sized-array");

            let mut buf: Vec<u8> = vals.iter().flat_map(|v| v.to_le_bytes()).collect();

            buf.resize(9, 0x22);
            buf.truncate(usize::from(*buf_len).min(9));

            let r = <[u16; 3]>::unpack_from_slice(&buf);

            if buf.len() >= 6 {
                ensure!(r == Ok(*vals), "C19|builtin-unpack", "[u16;3] unpack {r:?}");
            } else {
                ensure!(r == Err(WireError::ReadBufferTooShort), "C19|builtin-short-read", "[u16;3] unpack of {} bytes {r:?}", buf.len());
            }
        }
        Builtin::HVec { bytes } => {
            info.label("heapless-vec");

            let r = heapless::Vec::<u8, 8>::unpack_from_slice(bytes);
            let expect: Vec<u8> = bytes.iter().copied().take(8).collect();

            ensure!(r.as_ref().map(|v| v.as_slice()) == Ok(expect.as_slice()), "C19|builtin-unpack", "heapless::Vec<u8,8> of {} bytes gives {r:?}", bytes.len());
        }
        Builtin::HString { bytes } => {
            info.label("heapless-string");

            let r = heapless::String::<8>::unpack_from_slice(bytes);

            match std::str::from_utf8(bytes) {
                Ok(s) if s.len() <= 8 => ensure!(r.as_ref().map(|x| x.as_str()) == Ok(s), "C19|builtin-unpack", "String<8> {r:?}"),
                Ok(_) => ensure!(r == Err(WireError::ArrayLength), "C19|builtin-unpack", "over-long String<8> gives {r:?}"),
                Err(_) => ensure!(r == Err(WireError::InvalidUtf8), "C19|builtin-unpack", "invalid UTF-8 gives {r:?}"),
            }
        }
        Builtin::State { byte } => {
            info.label("SubDeviceState");

            use ethercrab::SubDeviceState as S;

            let expect = match byte {
                0 => S::None,
                1 => S::Init,
                2 => S::PreOp,
                3 => S::Bootstrap,
                4 => S::SafeOp,
                8 => S::Op,
                o => S::Other(*o),
            };

            ensure!(S::unpack_from_slice(&[*byte]) == Ok(expect), "C19|public-type", "SubDeviceState from {byte:#x}");
            ensure!(expect.pack() == [*byte], "C19|public-type", "SubDeviceState {expect:?} packs to {:?}", expect.pack());
            ensure!(S::unpack_from_slice(&[]) == Err(WireError::ReadBufferTooShort), "C19|public-type", "SubDeviceState short");
        }
        Builtin::AlStatus { code } => {
            info.label("AlStatusCode");

            use ethercrab::AlStatusCode as A;

            let r = A::unpack_from_slice(&code.to_le_bytes());

            // ETG.1000.6 table 11 anchors
            let expect = match code {
                0x0000 => Some(A::NoError),
                0x0011 => Some(A::InvalidRequestedStateChange),
                0x0016 => Some(A::InvalidMailboxConfiguration2),
                0x001b => Some(A::SyncManagerWatchdog),
                _ => None,
            };

            match (expect, r) {
                (Some(e), got) => ensure!(got == Ok(e), "C19|public-type", "AlStatusCode {code:#06x} decodes to {got:?}"),
                (None, Ok(A::Unknown(c))) => ensure!(c == *code, "C19|public-type", "AlStatusCode catch-all payload {c:#x} != {code:#x}"),
                (None, Ok(_)) => {}
                (None, Err(e)) => fail!("C19|public-type", "AlStatusCode {code:#06x}: {e:?}"),
            }

            ensure!(A::unpack_from_slice(&[0]) == Err(WireError::ReadBufferTooShort), "C19|public-type", "AlStatusCode short");
        }
        Builtin::Identity { v, buf_len } => {
            info.label("SubDeviceIdentity");

            let mut buf: Vec<u8> = v.iter().flat_map(|x| x.to_le_bytes()).collect();

            buf.resize(19, 0x33);
            buf.truncate(usize::from(*buf_len).min(19));

            let r = ethercrab::SubDeviceIdentity::unpack_from_slice(&buf);

            if buf.len() >= 16 {
                let i = r.map_err(|e| Fail::new("C19|public-type", format!("{e:?}")))?;

                ensure!((i.vendor_id, i.product_id, i.revision, i.serial) == (v[0], v[1], v[2], v[3]), "C19|public-type", "SubDeviceIdentity {i:?}");
            } else {
                ensure!(r.is_err(), "C19|public-type", "SubDeviceIdentity from {} bytes accepted", buf.len());
            }
        }
        Builtin::Counts { v, buf_len } => {
            info.label("ObjectDescriptionListQueryCounts");

            let mut buf: Vec<u8> = v.iter().flat_map(|x| x.to_le_bytes()).collect();

            buf.resize(13, 0x44);
            buf.truncate(usize::from(*buf_len).min(13));

            let r = ethercrab::ObjectDescriptionListQueryCounts::unpack_from_slice(&buf);

            if buf.len() >= 10 {
                let c = r.map_err(|e| Fail::new("C19|public-type", format!("{e:?}")))?;

                ensure!(
                    (c.all, c.rx_pdo_mappable, c.tx_pdo_mappable, c.stored_for_device_replacement, c.startup_parameters) == (v[0], v[1], v[2], v[3], v[4]),
                    "C19|public-type",
                    "ObjectDescriptionListQueryCounts {c:?}"
                );
            } else {
                ensure!(r.is_err(), "C19|public-type", "counts from {} bytes accepted", buf.len());
            }
        }
    }

    Ok(())
}

// ---------------------------------------------------------------------------------------------
// Layouts the macro must reject at compile time
// ---------------------------------------------------------------------------------------------

fn invalid_layouts(seed: u64, n: usize) -> Vec<(String, String)> {
    let mut r = Rng(seed | 1);
    let mut out = Vec::new();

    for i in 0..n {
        let (why, body) = match i % 4 {
            0 => {
                // multi-byte field not byte aligned
                let off = 1 + r.below(7);

                ("misaligned-multibyte", format!("#[wire(bits = {})]\nstruct S {{ #[wire(bits = {off})] a: u8, #[wire(bits = 16)] b: u16, #[wire(bits = {})] c: u8 }}", off + 16 + (8 - off), 8 - off))
            }
            1 => {
                // sub-byte field crossing a byte boundary
                let a = 3 + r.below(5);
                let b = 8 - a + 1 + r.below(a.min(6) - 1).min(5);

                ("sub-byte-crosses-boundary", format!("#[wire(bits = 16)]\nstruct S {{ #[wire(bits = {a})] a: u8, #[wire(bits = {b})] b: u8, #[wire(bits = {})] c: u8 }}", 16usize.saturating_sub(a + b)))
            }
            2 => {
                // field widths do not add up to the declared width
                let d = 1 + r.below(5);

                ("width-sum-mismatch", format!("#[wire(bits = {})]\nstruct S {{ #[wire(bits = 8)] a: u8, #[wire(bits = 16)] b: u16 }}", 24 + d))
            }
            _ => ("missing-width", "#[wire(bits = 16)]\nstruct S { #[wire(bits = 8)] a: u8, b: [u8; 1] }".to_string()),
        };

        out.push((why.to_string(), format!("#[derive(ethercrab_wire::EtherCrabWireReadWrite)]\n{body}\nfn main() {{}}\n")));
    }

    out
}

/// Compile every invalid layout as its own example; each must fail to compile.
fn check_invalid_layouts(check: &mut Check, seed: u64, n: usize) {
    let dir = PathBuf::from(VERIF_ROOT).join(format!("harness/target/wiregen/invalid-{seed:x}"));
    let layouts = invalid_layouts(seed, n);

    let _ = std::fs::remove_dir_all(&dir);

    std::fs::create_dir_all(dir.join("examples")).unwrap();
    std::fs::create_dir_all(dir.join("src")).unwrap();
    std::fs::write(dir.join("src/lib.rs"), "").unwrap();
    std::fs::write(
        dir.join("Cargo.toml"),
        "[package]\nname = \"wiregen-invalid\"\nversion = \"0.0.0\"\nedition = \"2021\"\n\n[dependencies]\nethercrab-wire = { path = \"/repo/ethercrab-wire\" }\n\n[workspace]\n",
    )
    .unwrap();

    let _ = std::fs::copy("/repo/Cargo.lock", dir.join("Cargo.lock"));

    for (i, (_, src)) in layouts.iter().enumerate() {
        std::fs::write(dir.join(format!("examples/l{i}.rs")), src).unwrap();
    }

    let target = PathBuf::from(VERIF_ROOT).join("harness/target/wiregen-target");

    let out = Command::new("cargo")
        .args(["check", "--offline", "--examples", "--keep-going", "--message-format", "short"])
        .current_dir(&dir)
        .env("CARGO_TARGET_DIR", &target)
        .env("CARGO_NET_OFFLINE", "true")
        .output()
        .expect("cargo check");

    let stderr = String::from_utf8_lossy(&out.stderr).to_string();

    for (i, (why, src)) in layouts.iter().enumerate() {
        let failed = stderr.contains(&format!("examples/l{i}.rs:"));
        let mut info = CaseInfo::default();

        info.nontrivial = true;
        info.label(format!("invalid-layout:{why}"));

        let res = if failed {
            Ok(())
        } else {
            Err(Fail::new(format!("C19|invalid-layout-accepted|{why}"), format!("the derive accepted a layout it must reject ({why}):\n{src}")))
        };

        check.record_case("invalid-layout", &json!({"why": why, "source": src}), &info, res);
    }

    let _ = std::fs::remove_dir_all(&dir);
}

fn main() {
    let args = parse_args();

    install_quiet_panic_hook();

    if let Some(path) = &args.replay {
        replay(path);
    }

    let mut check = Check::new("C19", args);
    let tier = check.tier();

    check.level = "translation_validation";
    check.rule = "programs = generated struct/enum definitions (1..12 fields, sub-byte and whole-byte widths, pre/post skips, nested structs and enums, arrays, wire(skip), Read/Write/ReadWrite derives; enums of every repr with/without catch_all, default, alternatives, implicit discriminants) compiled against /repo/ethercrab-wire; per program: random values (in range and oversize) and random buffers of PACKED_LEN-3..PACKED_LEN+3 bytes; non-trivial = the type has a sub-byte field at a non-zero bit offset, a skip, a nested type, or an enum with fallthrough; distinct by (batch seed, type, value index)".into();
    check.assumptions = vec![
        "the reference packer/unpacker in harness/vlib/src/wiregen.rs is driven by the declared layout table only and shares no code with the macro".into(),
        "not generated on purpose (judgement): signed integers in sub-byte fields, multi-byte fields whose declared width differs from the type's size, implicit width for f32".into(),
    ];

    let (batches, n_types, values) = tier.pick((2usize, 300usize, 200usize), (12, 600, 1000));
    let seed = check.args.seed;
    let mut programs = 0u64;

    for bi in 0..batches {
        run_batch(&mut check, mix(seed, 1000 + bi as u64), n_types, values, &mut programs);

        if !check.violations.is_empty() {
            break;
        }
    }

    // Layouts that must be rejected at compile time
    check_invalid_layouts(&mut check, mix(seed, 5), tier.pick(16, 64));

    // Built-in impls and public in-crate wire types
    check.run_prop("builtin-and-public-types", 16, tier.pick(4_000, 60_000), builtin_strategy, |c: &Builtin, info: &mut CaseInfo| judge_builtin(c, info));

    check.coverage("programs", json!(programs));
    check.coverage("disagreements_checked", json!(check.stats.evaluations));
    check.finish();
}
