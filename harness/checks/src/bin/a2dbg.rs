use vlib::{a2::*, a2_checks::*, core::*};

fn main() {
    install_quiet_panic_hook();
    let args: Vec<String> = std::env::args().collect();
    let slots: u8 = args.get(1).and_then(|s| s.parse().ok()).unwrap_or(1);
    let tasks: usize = args.get(2).and_then(|s| s.parse().ok()).unwrap_or(2);
    let reqs: usize = args.get(3).and_then(|s| s.parse().ok()).unwrap_or(1);
    let case = Case { scenario: fixed_scenario(slots, tasks, reqs), schedule: Schedule::Preempt(vec![]) };
    let t = std::time::Instant::now();
    let r = execute(&case, &RunConfig { c06_domain: false });
    match r {
        Ok(o) => println!("ok steps={} hooks={} completed={} allocfail={} trace_tail={:?} in {:?}", o.steps, o.hook_events, o.completed_ok, o.alloc_failed, &o.trace[o.trace.len().saturating_sub(10)..], t.elapsed()),
        Err(f) => println!("ERR {} {}", f.signature, f.message),
    }
}
