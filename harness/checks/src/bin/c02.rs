use vlib::core::*;

fn main() {
    let args = parse_args();

    install_quiet_panic_hook();

    if let Some(path) = &args.replay {
        vlib::a2_checks::replay("C02", path, false);
    }

    let check = Check::new("C02", args);

    vlib::a2_checks::c02(check);
}
