use vlib::{core::*, eeprom_checks as ec, sim_sii as ss};

fn guard<C>(f: impl Fn(&C, &mut CaseInfo) -> Result<(), Fail>) -> impl Fn(&C, &mut CaseInfo) -> Result<(), Fail> {
    move |c, info| match catch(|| {
        let mut i2 = CaseInfo::default();
        let r = f(c, &mut i2);
        (r, i2)
    }) {
        Ok((r, i2)) => {
            *info = i2;
            r
        }
        Err(p) => Err(Fail::new(format!("harness-panic|{}", panic_site(&p)), p)),
    }
}

/// Like `guard`, but a panic inside /repo code is the property's failure.
fn guard_repo<C>(f: impl Fn(&C, &mut CaseInfo) -> Result<(), Fail>) -> impl Fn(&C, &mut CaseInfo) -> Result<(), Fail> {
    move |c, info| match catch(|| {
        let mut i2 = CaseInfo::default();
        let r = f(c, &mut i2);
        (r, i2)
    }) {
        Ok((r, i2)) => {
            *info = i2;
            r
        }
        Err(p) => {
            let site = panic_site(&p);

            if is_repo_site(&site) { Err(Fail::new(format!("C14|panic|{site}"), p)) } else { Err(Fail::new(format!("harness-panic|{site}"), p)) }
        }
    }
}

fn main() {
    let args = parse_args();

    install_quiet_panic_hook();

    if let Some(path) = &args.replay {
        let kind = replay_kind(path);
        let mut info = CaseInfo::default();

        if kind == "sii-device-path" {
            let (_k, case): (String, ss::SiiDevCase) = load_replay(path);

            finish_replay("C14", path, guard_repo(|c: &ss::SiiDevCase, i: &mut CaseInfo| ss::run_sii_dev(c, "C14", i))(&case, &mut info));
        } else if kind == "h4-write" {
            let (_k, case): (String, ec::WriteCase) = load_replay(path);

            finish_replay("C14", path, guard(ec::run_write)(&case, &mut info));
        } else {
            let (_k, case): (String, ec::AliasCase) = load_replay(path);

            finish_replay("C14", path, guard(ec::run_alias)(&case, &mut info));
        }
    }

    let mut check = Check::new("C14", args);
    check.level = "fault_enumeration";
    let tier = check.tier();

    check.rule = ec::C14_RULE.to_string();
    check.assumptions = vec![
        "CRC-8 oracle is an independent bitwise implementation (poly 0x07, init 0xFF, no reflection)".into(),
        "alias sweep and generic writes run through the verif-hooks facade over an in-memory provider; command-error retries and busy devices are exercised by a second sub-run through the SII interface of a simulated device".into(),
    ];

    // Every alias value, in both tiers
    let seed = check.args.seed;
    let run_alias = guard(ec::run_alias);
    let mut first_fail = None;

    for alias in 0..=0xffffu32 {
        let case = ec::AliasCase {
            alias: alias as u16,
            header_seed: mix(seed, u64::from(alias)),
            chunk8: alias % 2 == 1,
        };
        let mut info = CaseInfo::default();
        let res = run_alias(&case, &mut info);

        if res.is_err() && first_fail.is_some() {
            // one replay per signature is enough; keep counting evaluations
            check.stats.evaluations += 1;
            continue;
        }

        if res.is_err() {
            first_fail = Some(alias);
        }

        check.record_case("h4-alias", &serde_json::to_value(&case).unwrap(), &info, res);
    }

    check.coverage("alias_values_swept", serde_json::json!(65536));
    check.coverage("exhaustive", serde_json::json!(true));

    check.run_prop("h4-write", 16, tier.pick(2_000, 500_000), ec::write_case, guard(ec::run_write));
    // alias writes and reads through the SII interface of a simulated device: command errors
    // (0..25 per word, retry bound 20), busy polling, a device that stays busy
    check.run_prop("sii-device-path", 16, tier.pick(300, 30_000), ss::sii_dev_case, guard_repo(|c: &ss::SiiDevCase, i: &mut CaseInfo| ss::run_sii_dev(c, "C14", i)));
    check.finish();
}
