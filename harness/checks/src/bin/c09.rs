use vlib::{core::*, sim_checks as sc};

fn main() {
    let args = parse_args();

    install_quiet_panic_hook();
    install_hang_watchdog("C09", 120, false);

    let run = |c: &sc::C09Case, info: &mut CaseInfo| match catch(|| {
        let mut i2 = CaseInfo::default();
        let r = sc::run_c09(c, &mut i2);
        (r, i2)
    }) {
        Ok((r, i2)) => {
            *info = i2;
            r
        }
        Err(p) => {
            let site = panic_site(&p);

            if is_repo_site(&site) {
                Err(Fail::new(format!("C09|panic|{site}"), p))
            } else {
                Err(Fail::new(format!("harness-panic|{site}"), p))
            }
        }
    };

    if let Some(path) = &args.replay {
        let (_k, case): (String, sc::C09Case) = load_replay(path);
        hang_begin("replay", &case);
        let mut info = CaseInfo::default();

        finish_replay("C09", path, run(&case, &mut info));
    }

    let mut check = Check::new("C09", args);
    let tier = check.tier();

    check.rule = sc::C09_RULE.to_string();
    check.assumptions = vec![
        "devices are simulated (harness/vlib/src/simnet.rs, written from ETG.1000.4/.6 and ESC register semantics, no ethercrab code); the generated network description is the ground truth".into(),
        "time is virtual; every frame round trip costs 5 us".into(),
    ];

    check.run_prop("simnet-init", 16, tier.pick(300, 40_000), sc::c09_case, run);
    check.finish();
}
