use vlib::{core::*, sim_dc as ec};

fn main() {
    let args = parse_args();

    install_quiet_panic_hook();
    install_hang_watchdog("C18", 120, false);

    let run = |c: &ec::C18Case, info: &mut CaseInfo| match catch(|| {
        let mut i2 = CaseInfo::default();
        let r = ec::run_c18(c, &mut i2);
        (r, i2)
    }) {
        Ok((r, i2)) => {
            *info = i2;
            r
        }
        Err(p) => {
            let site = panic_site(&p);

            if is_repo_site(&site) {
                Err(Fail::new(format!("C18|panic|{site}"), p))
            } else {
                Err(Fail::new(format!("harness-panic|{site}"), p))
            }
        }
    };

    install_crash_guard("C18");

    if let Some(path) = &args.replay {
        if let Some(cands) = crash_candidates(path) {
            // Re-run every candidate; the crashing one takes the process down again, which the
            // crash guard reports as the violation.
            for (_k, c) in cands {
                if let Ok(case) = serde_json::from_value::<ec::C18Case>(c) {
                    let mut info = CaseInfo::default();

                    if let Err(f) = run(&case, &mut info) {
                        finish_replay("C18", path, Err(f));
                    }
                }
            }

            finish_replay("C18", path, Ok(()));
        }

        let (_k, case): (String, ec::C18Case) = load_replay(path);
        let mut info = CaseInfo::default();

        finish_replay("C18", path, run(&case, &mut info));
    }

    let mut check = Check::new("C18", args);
    let tier = check.tier();

    check.rule = ec::C18_RULE.to_string();
    check.assumptions = vec![
        "the reference clock's system time register answers the generated value (simulator override) during set-up and in every cycle".into(),
        "both arithmetic profiles (release, and overflow-checks + debug-assertions) are run and merged".into(),
    ];



    check.run_prop("simnet-dc-sync", 16, tier.pick(600, 15_000), ec::c18_case, run);
    check.merge_profile_child("checked");
    check.finish();
}
