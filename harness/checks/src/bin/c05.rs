use vlib::core::*;

fn main() {
    let args = parse_args();

    install_quiet_panic_hook();

    if let Some(path) = &args.replay {
        vlib::a1_checks::replay("C05", path);
    }

    let check = Check::new("C05", args);

    vlib::a1_checks::c05(check);
}
