//! Distributed clock checks on the simulated segment: C17 (topology / propagation delays) and C18
//! (sync set-up and cycle arithmetic).

use crate::{
    core::*,
    ensure, fail,
    sim_checks::sim_fail,
    simexec::{self, NetHandle, SimConfig},
    simgen::{self, DevKnobs},
    simnet::{self, DcKind, NetSpec, Network},
};
use ethercrab::error::Error;
use proptest::prelude::*;
use serde::{Deserialize, Serialize};
use std::{cell::RefCell, rc::Rc};

// ---------------------------------------------------------------------------------------------
// C17
// ---------------------------------------------------------------------------------------------

#[derive(Serialize, Deserialize, Clone, Debug, PartialEq, Eq, Hash)]
pub enum Bogus {
    /// Device reports these link bits (bit p = port p)
    Links { dev: u8, bits: u8 },
    /// Device reports these port receive times
    Times { dev: u8, times: [u32; 4] },
}

#[derive(Serialize, Deserialize, Clone, Debug, PartialEq, Eq, Hash)]
pub struct C17Case {
    /// Downstream ports each device offers (0..=3); the tree is wired depth first
    pub down_ports: Vec<u8>,
    pub dc: Vec<DcKind>,
    /// Delay of the link to the upstream neighbour, ns
    pub link_delay: Vec<u32>,
    pub clock_offset: Vec<u64>,
    /// Devices whose local clock is set such that the frame reaches port 0 this many ns before
    /// (negative) / after the 32-bit wrap of the local time
    pub wrap: Vec<Option<i32>>,
    pub now: u64,
    pub static_sync: u8,
    pub bogus: Option<Bogus>,
    /// Metamorphic run: the link of this device is made this many ns slower
    #[serde(default)]
    pub perturb: Option<(u8, u16)>,
}

pub fn c17_case() -> impl Strategy<Value = C17Case> {
    (prop_oneof![2 => 1usize..=3, 4 => 2usize..=10, 2 => 11usize..=24], prop_oneof![3 => Just(0u8), 2 => Just(1u8), 2 => Just(2u8)]).prop_flat_map(|(n, shape)| {
        let dp = match shape {
            // pure chain
            0 => Just(1u8).boxed(),
            // mostly chain with some forks
            1 => prop_oneof![5 => Just(1u8), 2 => Just(2u8), 1 => Just(0u8)].boxed(),
            _ => prop_oneof![2 => Just(0u8), 3 => Just(1u8), 2 => Just(2u8), 2 => Just(3u8)].boxed(),
        };

        (
            prop::collection::vec(dp, n),
            // half of the networks are DC capable throughout (a non-DC device between DC devices is
            // a known finding that ends the evaluation of a chain case early)
            prop_oneof![
                1 => prop::collection::vec(prop_oneof![1 => Just(DcKind::RefOnly), 3 => Just(DcKind::Bits32), 4 => Just(DcKind::Bits64)], n),
                1 => prop::collection::vec(prop_oneof![2 => Just(DcKind::None), 1 => Just(DcKind::RefOnly), 3 => Just(DcKind::Bits32), 4 => Just(DcKind::Bits64)], n),
            ],
            prop::collection::vec(10u32..=2000, n),
            prop::collection::vec(prop_oneof![3 => 0u64..1_000_000_000_000, 1 => any::<u64>()], n),
            prop::collection::vec(prop_oneof![8 => Just(None), 1 => (-3000i32..=100).prop_map(Some)], n),
            prop_oneof![1 => Just(0u64), 3 => 0u64..(1u64 << 40), 1 => any::<u64>()],
            0u8..3,
            prop_oneof![1 => Just(None), 1 => (0u8..24, 1u16..=1000).prop_map(Some)],
            prop_oneof![
                3 => Just(None),
                1 => (0u8..24, 0u8..16).prop_map(|(dev, bits)| Some(Bogus::Links { dev, bits })),
                1 => (0u8..24, any::<[u32; 4]>()).prop_map(|(dev, times)| Some(Bogus::Times { dev, times })),
            ],
        )
            .prop_map(move |(down_ports, dc, link_delay, clock_offset, wrap, now, static_sync, perturb, bogus)| {
                let perturb = perturb.map(|(d, by)| (d % n as u8, by));

                let bogus = bogus.map(|b| match b {
                    Bogus::Links { dev, bits } => Bogus::Links { dev: dev % n as u8, bits },
                    Bogus::Times { dev, times } => Bogus::Times { dev: dev % n as u8, times },
                });

                C17Case { down_ports, dc, link_delay, clock_offset, wrap, now, static_sync, bogus, perturb }
            })
    })
}

pub const C17_RULE: &str = "case = (tree of 1..24 devices wired depth first through port 0 from the number of downstream ports each device offers (pure chains, chains with forks, bushy trees with crosses), per link a symmetric delay of 10..2000 ns, DC capability none / reference only / 32 bit / 64 bit per device, arbitrary local clock offsets and selected devices whose local time wraps 2^32 while the frame is inside their subtree, arbitrary master time; optionally one device that reports arbitrary link bits or arbitrary port receive times); non-trivial = a tree with a fork or cross followed by a device after the branch returns, or a chain with a non-DC device between DC devices, or a wrap-straddling latch, or an inconsistent report; distinct by hash of the case";

fn c17_knobs(i: usize, c: &C17Case, clock_offset: u64) -> DevKnobs {
    DevKnobs {
        name: format!("T{i}").into_bytes(),
        long_name: b"Device".to_vec(),
        vendor: 1,
        product: 2 + i as u32,
        revision: 3,
        serial: 4,
        alias: 0,
        stale_addr: 0,
        mailbox: false,
        coe: false,
        mbx_size: 32,
        out_sms: vec![],
        in_sms: vec![],
        fmmu_ex: false,
        dc: c.dc[i],
        chunk8: true,
        sii_busy_polls: 0,
        strict: false,
        unknown_cats: 0,
        input_seed: 0,
        clock_offset,
        link_delay: c.link_delay[i],
        down_ports: c.down_ports[i],
        complete_access: false,
        oversampling: vec![],
        noncontig: false,
        unnamed: false,
    }
}

struct C17Obs {
    res: Result<Vec<u32>, Error>,
    latch_at: Option<u64>,
}

fn c17_run(case: &C17Case, offsets: &[u64]) -> Result<(C17Obs, NetHandle), Fail> {
    let n = case.down_ports.len();
    let knobs: Vec<DevKnobs> = (0..n).map(|i| c17_knobs(i, case, offsets[i])).collect();
    let mut spec: NetSpec = simgen::build_net(&knobs, &[], &[]);

    match &case.bogus {
        Some(Bogus::Links { dev, bits }) => spec.devices[usize::from(*dev)].dl_links_override = Some(*bits),
        Some(Bogus::Times { dev, times }) => spec.devices[usize::from(*dev)].port_times_override = Some(*times),
        None => {}
    }

    let net: NetHandle = Rc::new(RefCell::new(Network::new(&spec)));
    let cfg = SimConfig { dc_static_sync_iterations: u32::from(case.static_sync), ..Default::default() };
    let now = case.now;

    let res: Result<Vec<u32>, Error> = simexec::run(&net, &cfg, |md| {
        Box::pin(async move {
            let group = md.init_single_group::<32, 8>(move || now).await?;

            Ok(group.iter(md).map(|sd| sd.propagation_delay()).collect())
        })
    })
    .map_err(|e| sim_fail("C17", e))?;

    let latch_at = net.borrow().stats.dc_latch_at;

    Ok((C17Obs { res, latch_at }, net))
}

pub fn run_c17(case: &C17Case, info: &mut CaseInfo) -> Result<(), Fail> {
    let n = case.down_ports.len();
    let wiring = simgen::wire_tree(&case.down_ports);

    // Local clock offsets; wrap-straddling ones need the latch time, which a first run measures
    // (the simulation is deterministic and does not depend on the clock offsets)
    let mut offsets = case.clock_offset.clone();
    let wants_wrap = case.wrap.iter().any(|w| w.is_some()) && case.bogus.is_none();

    if wants_wrap {
        let (probe, net) = c17_run(case, &offsets)?;

        if let Some(t) = probe.latch_at {
            let arrivals = net.borrow().port_arrivals(t);

            for i in 0..n {
                if let (Some(delta), Some(a0)) = (case.wrap[i], arrivals[i][0]) {
                    // local(a0) = 2^32 + delta  (mod 2^64)
                    offsets[i] = (1u64 << 32).wrapping_add(delta as i64 as u64).wrapping_sub(a0);
                }
            }
        }
    }

    let (obs, net) = c17_run(case, &offsets)?;
    let net = net.borrow();
    let dc_devs: Vec<usize> = (0..n).filter(|i| case.dc[*i] != DcKind::None).collect();
    let children_of = |p: usize| (0..n).filter(|i| wiring[*i].0 == Some(p)).count();
    let pure_chain = (0..n).all(|i| children_of(i) <= 1);

    info.count("devices", n as u64);
    info.label(if pure_chain { "chain" } else { "tree" });

    // ---- inconsistent reports ---------------------------------------------------------------
    if let Some(b) = &case.bogus {
        info.nontrivial = true;

        match b {
            Bogus::Links { dev, bits } => {
                info.label("arbitrary-link-report");

                // pre-order port count: can these reports come from a tree wired through port 0?
                let mut links: Vec<u8> = (0..n).map(|i| (0..4).map(|p| u8::from(wiring[i].1[p]) << p).sum()).collect();

                links[usize::from(*dev)] = *bits;

                let mut impossible = false;
                let mut free: i64 = 0;

                for (i, l) in links.iter().enumerate() {
                    // (a device entered through another port than 0 is not what the statement
                    // describes, but it is a wiring that exists; it is not judged as impossible)
                    if *l == 0 {
                        impossible = true;

                        break;
                    }

                    if i > 0 {
                        if free == 0 {
                            impossible = true;

                            break;
                        }

                        free -= 1;
                    }

                    free += i64::from(l.count_ones()) - 1;
                }

                if impossible {
                    info.label("impossible-report");

                    ensure!(
                        obs.res.is_err(),
                        "C17|impossible-report-accepted",
                        "device {dev} reports link bits {bits:#06b}; with the other devices' reports {links:x?} that cannot come from a tree (a device without any link, or more devices than downstream ports), but init succeeded"
                    );
                } else {
                    info.label("possible-report");
                }
            }
            Bogus::Times { .. } => info.label("arbitrary-port-times"),
        }

        // never a panic: panics are caught by the caller and reported with their site
        return Ok(());
    }

    let delays = match &obs.res {
        Ok(d) => d.clone(),
        Err(e) => fail!("C17|init-failed", "init of a healthy tree of {n} devices failed: {e:?}"),
    };

    let Some(latch) = obs.latch_at else {
        ensure!(dc_devs.is_empty() || n == 0, "harness|no-latch", "DC devices present but no latch seen");

        return Ok(());
    };

    let arrivals = net.port_arrivals(latch);
    let reg_delay = |i: usize| u32::from_le_bytes(net.devices[i].mem[simnet::R_DC_DELAY..simnet::R_DC_DELAY + 4].try_into().unwrap());
    let reg_offset = |i: usize| u64::from_le_bytes(net.devices[i].mem[simnet::R_DC_OFFSET..simnet::R_DC_OFFSET + 8].try_into().unwrap());
    let recv_time = |i: usize| u64::from_le_bytes(net.devices[i].mem[simnet::R_DC_RECV_TIME..simnet::R_DC_RECV_TIME + 8].try_into().unwrap());

    // classification
    let straddles: Vec<usize> = (0..n)
        .filter(|i| {
            case.dc[*i] != DcKind::None && {
                let ts: Vec<u32> = (0..4).filter_map(|p| arrivals[*i][p]).map(|t| net.devices[*i].local_time(t) as u32).collect();

                ts.iter().max().zip(ts.iter().min()).map(|(a, b)| a - b > 0x8000_0000).unwrap_or(false)
            }
        })
        .collect();

    let gap = dc_devs.windows(2).any(|w| w[1] - w[0] > 1 && pure_chain);
    let branch_return = (0..n).any(|i| children_of(i) >= 2);

    if !straddles.is_empty() {
        info.label("latch-straddles-32-bit-wrap");
    }

    if gap {
        info.label("non-dc-device-between-dc-devices");
    }

    if branch_return {
        info.label("fork-or-cross");
    }

    info.nontrivial = !straddles.is_empty() || gap || branch_return;

    if dc_devs.is_empty() {
        info.label("no-dc-device");

        return Ok(());
    }

    let first = dc_devs[0];

    // reference clock
    if case.static_sync > 0 {
        ensure!(
            net.stats.frmw_targets == vec![net.devices[first].station_addr()],
            "C17|reference-clock",
            "the first DC capable device is {first} ({:#06x}); time distribution datagrams went to {:x?}",
            net.devices[first].station_addr(),
            net.stats.frmw_targets
        );
    }

    let suffix = if gap { "|non-dc-gap" } else if !straddles.is_empty() { "|wrap" } else { "" };

    for (k, i) in dc_devs.iter().enumerate() {
        let i = *i;

        // what SubDevice::propagation_delay() says is what was programmed
        ensure!(delays[i] == reg_delay(i), "C17|delay-register-differs", "device {i}: propagation_delay() = {}, register 0x0928 holds {}", delays[i], reg_delay(i));

        // offset
        let want = case.now.wrapping_sub(recv_time(i));

        ensure!(
            reg_offset(i) == want,
            "C17|offset",
            "device {i}: latched receive time {:#x}, master time {:#x}: offset register holds {:#x}, expected {want:#x}",
            recv_time(i),
            case.now,
            reg_offset(i)
        );

        // monotone in frame-processing order
        if k > 0 {
            let p = dc_devs[k - 1];

            ensure!(
                reg_delay(i) >= reg_delay(p),
                format!("C17|delay-decreases{suffix}"),
                "device {i} was given delay {} ns, the DC device before it in processing order ({p}) {} ns",
                reg_delay(i),
                reg_delay(p)
            );
        }

        let truth = arrivals[i][0].unwrap() - arrivals[first][0].unwrap();

        if pure_chain {
            ensure!(
                u64::from(reg_delay(i)) == truth,
                format!("C17|chain-delay{suffix}"),
                "chain of {n} devices (DC: {:?}, link delays {:?}): device {i} was given delay {} ns, the frame reaches it {truth} ns after the first DC device ({first})",
                case.dc,
                case.link_delay,
                reg_delay(i)
            );
        } else {
            // derived from the true upstream neighbour: never less than the nearest DC ancestor
            let mut a = wiring[i].0;

            while let Some(p) = a {
                if case.dc[p] != DcKind::None {
                    break;
                }

                a = wiring[p].0;
            }

            if let Some(p) = a {
                if p >= first {
                    ensure!(
                        reg_delay(i) >= reg_delay(p),
                        format!("C17|delay-below-upstream{suffix}"),
                        "device {i} hangs below device {p}; it was given delay {} ns, its upstream device {} ns",
                        reg_delay(i),
                        reg_delay(p)
                    );
                }
            }

            // The time the reference clock's time stamp needs to reach the device is the time
            // the frame needs: it includes the round trips through branches visited earlier
            let all_dc = dc_devs.len() == n;

            let junctions = (0..n).filter(|j| children_of(*j) >= 2).count();

            if all_dc {
                info.label(if u64::from(reg_delay(i)) == truth {
                    if junctions == 1 { "one-junction-all-dc-tree-delay-equals-frame-delay" } else { "all-dc-tree-delay-equals-frame-delay" }
                } else if junctions == 1 {
                    "one-junction-all-dc-tree-delay-differs-from-frame-delay"
                } else {
                    "all-dc-tree-delay-differs-from-frame-delay"
                });

                if u64::from(reg_delay(i)) != truth && std::env::var_os("VERIF_DEBUG").is_some() {
                    eprintln!("device {i}: delay {} truth {truth}; down_ports {:?} link {:?}", reg_delay(i), case.down_ports, case.link_delay);
                }
            }
        }
    }

    // ---- metamorphic: a slower link moves exactly what lies behind it --------------------------
    if let (Some((j, by)), true) = (case.perturb, straddles.is_empty()) {
        let j = usize::from(j);

        if j > 0 {
            let mut slower = case.clone();

            slower.link_delay[j] += u32::from(by);
            slower.wrap = vec![None; n];
            slower.perturb = None;

            let mut plain = case.clone();

            plain.wrap = vec![None; n];

            let (o1, n1) = c17_run(&plain, &plain.clock_offset)?;
            let (o2, n2) = c17_run(&slower, &slower.clock_offset)?;
            let (n1, n2) = (n1.borrow(), n2.borrow());

            if o1.res.is_ok() && o2.res.is_ok() {
                info.label("metamorphic-slower-link");

                let d = |net: &Network, i: usize| u32::from_le_bytes(net.devices[i].mem[simnet::R_DC_DELAY..simnet::R_DC_DELAY + 4].try_into().unwrap());

                for i in dc_devs.iter().filter(|i| **i < j) {
                    // the parent of device i is a cross (4 open ports)?
                    let under_cross = wiring[*i].0.map(|p| wiring[p].1.iter().filter(|o| **o).count() == 4).unwrap_or(false);

                    ensure!(
                        d(&n1, *i) == d(&n2, *i),
                        format!("C17|delay-depends-on-later-link{}", if under_cross { "|child-of-cross" } else { "" }),
                        "making the link of device {j} {by} ns slower changed the delay of device {i}, which the frame reaches earlier, from {} to {} ns (tree: downstream ports {:?}, DC {:?})",
                        d(&n1, *i),
                        d(&n2, *i),
                        case.down_ports,
                        case.dc
                    );
                }

                if dc_devs.len() == n {
                    let under_cross = wiring[j].0.map(|p| wiring[p].1.iter().filter(|o| **o).count() == 4).unwrap_or(false);

                    ensure!(
                        d(&n2, j) == d(&n1, j) + u32::from(by),
                        format!("C17|delay-ignores-own-link{}", if under_cross { "|child-of-cross" } else { "" }),
                        "making the link of device {j} {by} ns slower changed its delay from {} to {} ns (tree: downstream ports {:?})",
                        d(&n1, j),
                        d(&n2, j),
                        case.down_ports
                    );
                }
            }
        }
    }

    Ok(())
}
