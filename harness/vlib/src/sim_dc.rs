//! Distributed clock checks on the simulated segment: C17 (topology / propagation delays) and C18
//! (sync set-up and cycle arithmetic).

use crate::{
    core::*,
    ensure, fail,
    sim_checks::sim_fail,
    simexec::{self, NetHandle, SimConfig},
    simgen::{self, DevKnobs},
    simnet::{self, DcKind, NetSpec, Network},
};
use ethercrab::error::Error;
use proptest::prelude::*;
use serde::{Deserialize, Serialize};
use std::{cell::RefCell, rc::Rc};

// ---------------------------------------------------------------------------------------------
// C17
// ---------------------------------------------------------------------------------------------

#[derive(Serialize, Deserialize, Clone, Debug, PartialEq, Eq, Hash)]
pub enum Bogus {
    /// Device reports these link bits (bit p = port p)
    Links { dev: u8, bits: u8 },
    /// Device reports these port receive times
    Times { dev: u8, times: [u32; 4] },
}

#[derive(Serialize, Deserialize, Clone, Debug, PartialEq, Eq, Hash)]
pub struct C17Case {
    /// Downstream ports each device offers (0..=3); the tree is wired depth first
    pub down_ports: Vec<u8>,
    pub dc: Vec<DcKind>,
    /// Delay of the link to the upstream neighbour, ns
    pub link_delay: Vec<u32>,
    pub clock_offset: Vec<u64>,
    /// Devices whose local clock is set such that the frame reaches port 0 this many ns before
    /// (negative) / after the 32-bit wrap of the local time
    pub wrap: Vec<Option<i32>>,
    pub now: u64,
    pub static_sync: u8,
    pub bogus: Option<Bogus>,
    /// Metamorphic run: the link of this device is made this many ns slower
    #[serde(default)]
    pub perturb: Option<(u8, u16)>,
}

pub fn c17_case() -> impl Strategy<Value = C17Case> {
    (prop_oneof![2 => 1usize..=3, 4 => 2usize..=10, 2 => 11usize..=24], prop_oneof![3 => Just(0u8), 2 => Just(1u8), 2 => Just(2u8)]).prop_flat_map(|(n, shape)| {
        let dp = match shape {
            // pure chain
            0 => Just(1u8).boxed(),
            // mostly chain with some forks
            1 => prop_oneof![5 => Just(1u8), 2 => Just(2u8), 1 => Just(0u8)].boxed(),
            _ => prop_oneof![2 => Just(0u8), 3 => Just(1u8), 2 => Just(2u8), 2 => Just(3u8)].boxed(),
        };

        (
            prop::collection::vec(dp, n),
            // half of the networks are DC capable throughout (a non-DC device between DC devices is
            // a known finding that ends the evaluation of a chain case early)
            prop_oneof![
                1 => prop::collection::vec(prop_oneof![1 => Just(DcKind::RefOnly), 3 => Just(DcKind::Bits32), 4 => Just(DcKind::Bits64)], n),
                1 => prop::collection::vec(prop_oneof![2 => Just(DcKind::None), 1 => Just(DcKind::RefOnly), 3 => Just(DcKind::Bits32), 4 => Just(DcKind::Bits64)], n),
            ],
            prop::collection::vec(10u32..=2000, n),
            prop::collection::vec(prop_oneof![3 => 0u64..1_000_000_000_000, 1 => any::<u64>()], n),
            prop::collection::vec(prop_oneof![8 => Just(None), 1 => (-3000i32..=100).prop_map(Some)], n),
            prop_oneof![1 => Just(0u64), 3 => 0u64..(1u64 << 40), 1 => any::<u64>()],
            0u8..3,
            prop_oneof![1 => Just(None), 1 => (0u8..24, 1u16..=1000).prop_map(Some)],
            prop_oneof![
                3 => Just(None),
                1 => (0u8..24, 0u8..16).prop_map(|(dev, bits)| Some(Bogus::Links { dev, bits })),
                1 => (0u8..24, any::<[u32; 4]>()).prop_map(|(dev, times)| Some(Bogus::Times { dev, times })),
            ],
        )
            .prop_map(move |(down_ports, dc, link_delay, clock_offset, wrap, now, static_sync, perturb, bogus)| {
                let perturb = perturb.map(|(d, by)| (d % n as u8, by));

                let bogus = bogus.map(|b| match b {
                    Bogus::Links { dev, bits } => Bogus::Links { dev: dev % n as u8, bits },
                    Bogus::Times { dev, times } => Bogus::Times { dev: dev % n as u8, times },
                });

                C17Case { down_ports, dc, link_delay, clock_offset, wrap, now, static_sync, bogus, perturb }
            })
    })
}

pub const C17_RULE: &str = "case = (tree of 1..24 devices wired depth first through port 0 from the number of downstream ports each device offers (pure chains, chains with forks, bushy trees with crosses), per link a symmetric delay of 10..2000 ns, DC capability none / reference only / 32 bit / 64 bit per device, arbitrary local clock offsets and selected devices whose local time wraps 2^32 while the frame is inside their subtree, arbitrary master time; optionally one device that reports arbitrary link bits or arbitrary port receive times); non-trivial = a tree with a fork or cross followed by a device after the branch returns, or a chain with a non-DC device between DC devices, or a wrap-straddling latch, or an inconsistent report; distinct by hash of the case";

fn c17_knobs(i: usize, c: &C17Case, clock_offset: u64) -> DevKnobs {
    DevKnobs {
        name: format!("T{i}").into_bytes(),
        long_name: b"Device".to_vec(),
        vendor: 1,
        product: 2 + i as u32,
        revision: 3,
        serial: 4,
        alias: 0,
        stale_addr: 0,
        mailbox: false,
        coe: false,
        mbx_size: 32,
        out_sms: vec![],
        in_sms: vec![],
        fmmu_ex: false,
        dc: c.dc[i],
        chunk8: true,
        sii_busy_polls: 0,
        strict: false,
        unknown_cats: 0,
        input_seed: 0,
        clock_offset,
        link_delay: c.link_delay[i],
        down_ports: c.down_ports[i],
        complete_access: false,
        oversampling: vec![],
        noncontig: false,
        unnamed: false,
    }
}

struct C17Obs {
    res: Result<Vec<u32>, Error>,
    latch_at: Option<u64>,
}

fn c17_run(case: &C17Case, offsets: &[u64]) -> Result<(C17Obs, NetHandle), Fail> {
    let n = case.down_ports.len();
    let knobs: Vec<DevKnobs> = (0..n).map(|i| c17_knobs(i, case, offsets[i])).collect();
    let mut spec: NetSpec = simgen::build_net(&knobs, &[], &[]);

    match &case.bogus {
        Some(Bogus::Links { dev, bits }) => spec.devices[usize::from(*dev)].dl_links_override = Some(*bits),
        Some(Bogus::Times { dev, times }) => spec.devices[usize::from(*dev)].port_times_override = Some(*times),
        None => {}
    }

    let net: NetHandle = Rc::new(RefCell::new(Network::new(&spec)));
    let cfg = SimConfig { dc_static_sync_iterations: u32::from(case.static_sync), ..Default::default() };
    let now = case.now;

    let res: Result<Vec<u32>, Error> = simexec::run(&net, &cfg, |md| {
        Box::pin(async move {
            let group = md.init_single_group::<32, 8>(move || now).await?;

            Ok(group.iter(md).map(|sd| sd.propagation_delay()).collect())
        })
    })
    .map_err(|e| sim_fail("C17", e))?;

    let latch_at = net.borrow().stats.dc_latch_at;

    Ok((C17Obs { res, latch_at }, net))
}

pub fn run_c17(case: &C17Case, info: &mut CaseInfo) -> Result<(), Fail> {
    let n = case.down_ports.len();
    let wiring = simgen::wire_tree(&case.down_ports);

    // Local clock offsets; wrap-straddling ones need the latch time, which a first run measures
    // (the simulation is deterministic and does not depend on the clock offsets)
    let mut offsets = case.clock_offset.clone();
    let wants_wrap = case.wrap.iter().any(|w| w.is_some()) && case.bogus.is_none();

    if wants_wrap {
        let (probe, net) = c17_run(case, &offsets)?;

        if let Some(t) = probe.latch_at {
            let arrivals = net.borrow().port_arrivals(t);

            for i in 0..n {
                if let (Some(delta), Some(a0)) = (case.wrap[i], arrivals[i][0]) {
                    // local(a0) = 2^32 + delta  (mod 2^64)
                    offsets[i] = (1u64 << 32).wrapping_add(delta as i64 as u64).wrapping_sub(a0);
                }
            }
        }
    }

    let (obs, net) = c17_run(case, &offsets)?;
    let net = net.borrow();
    let dc_devs: Vec<usize> = (0..n).filter(|i| case.dc[*i] != DcKind::None).collect();
    let children_of = |p: usize| (0..n).filter(|i| wiring[*i].0 == Some(p)).count();
    let pure_chain = (0..n).all(|i| children_of(i) <= 1);

    info.count("devices", n as u64);
    info.label(if pure_chain { "chain" } else { "tree" });

    // ---- inconsistent reports ---------------------------------------------------------------
    if let Some(b) = &case.bogus {
        info.nontrivial = true;

        match b {
            Bogus::Links { dev, bits } => {
                info.label("arbitrary-link-report");

                // pre-order port count: can these reports come from a tree wired through port 0?
                let mut links: Vec<u8> = (0..n).map(|i| (0..4).map(|p| u8::from(wiring[i].1[p]) << p).sum()).collect();

                links[usize::from(*dev)] = *bits;

                let mut impossible = false;
                let mut free: i64 = 0;

                for (i, l) in links.iter().enumerate() {
                    // (a device entered through another port than 0 is not what the statement
                    // describes, but it is a wiring that exists; it is not judged as impossible)
                    if *l == 0 {
                        impossible = true;

                        break;
                    }

                    if i > 0 {
                        if free == 0 {
                            impossible = true;

                            break;
                        }

                        free -= 1;
                    }

                    free += i64::from(l.count_ones()) - 1;
                }

                if impossible {
                    info.label("impossible-report");

                    ensure!(
                        obs.res.is_err(),
                        "C17|impossible-report-accepted",
                        "device {dev} reports link bits {bits:#06b}; with the other devices' reports {links:x?} that cannot come from a tree (a device without any link, or more devices than downstream ports), but init succeeded"
                    );
                } else {
                    info.label("possible-report");
                }
            }
            Bogus::Times { .. } => info.label("arbitrary-port-times"),
        }

        // never a panic: panics are caught by the caller and reported with their site
        return Ok(());
    }

    let delays = match &obs.res {
        Ok(d) => d.clone(),
        Err(e) => fail!("C17|init-failed", "init of a healthy tree of {n} devices failed: {e:?}"),
    };

    let Some(latch) = obs.latch_at else {
        ensure!(dc_devs.is_empty() || n == 0, "harness|no-latch", "DC devices present but no latch seen");

        return Ok(());
    };

    let arrivals = net.port_arrivals(latch);
    let reg_delay = |i: usize| u32::from_le_bytes(net.devices[i].mem[simnet::R_DC_DELAY..simnet::R_DC_DELAY + 4].try_into().unwrap());
    let reg_offset = |i: usize| u64::from_le_bytes(net.devices[i].mem[simnet::R_DC_OFFSET..simnet::R_DC_OFFSET + 8].try_into().unwrap());
    let recv_time = |i: usize| u64::from_le_bytes(net.devices[i].mem[simnet::R_DC_RECV_TIME..simnet::R_DC_RECV_TIME + 8].try_into().unwrap());

    // classification
    let straddles: Vec<usize> = (0..n)
        .filter(|i| {
            case.dc[*i] != DcKind::None && {
                let ts: Vec<u32> = (0..4).filter_map(|p| arrivals[*i][p]).map(|t| net.devices[*i].local_time(t) as u32).collect();

                ts.iter().max().zip(ts.iter().min()).map(|(a, b)| a - b > 0x8000_0000).unwrap_or(false)
            }
        })
        .collect();

    let gap = dc_devs.windows(2).any(|w| w[1] - w[0] > 1 && pure_chain);
    let branch_return = (0..n).any(|i| children_of(i) >= 2);

    if !straddles.is_empty() {
        info.label("latch-straddles-32-bit-wrap");
    }

    if gap {
        info.label("non-dc-device-between-dc-devices");
    }

    if branch_return {
        info.label("fork-or-cross");
    }

    info.nontrivial = !straddles.is_empty() || gap || branch_return;

    if dc_devs.is_empty() {
        info.label("no-dc-device");

        return Ok(());
    }

    let first = dc_devs[0];

    // reference clock
    if case.static_sync > 0 {
        ensure!(
            net.stats.frmw_targets == vec![net.devices[first].station_addr()],
            "C17|reference-clock",
            "the first DC capable device is {first} ({:#06x}); time distribution datagrams went to {:x?}",
            net.devices[first].station_addr(),
            net.stats.frmw_targets
        );
    }

    let suffix = if gap { "|non-dc-gap" } else if !straddles.is_empty() { "|wrap" } else { "" };

    for (k, i) in dc_devs.iter().enumerate() {
        let i = *i;

        // what SubDevice::propagation_delay() says is what was programmed
        ensure!(delays[i] == reg_delay(i), "C17|delay-register-differs", "device {i}: propagation_delay() = {}, register 0x0928 holds {}", delays[i], reg_delay(i));

        // offset
        let want = case.now.wrapping_sub(recv_time(i));

        ensure!(
            reg_offset(i) == want,
            "C17|offset",
            "device {i}: latched receive time {:#x}, master time {:#x}: offset register holds {:#x}, expected {want:#x}",
            recv_time(i),
            case.now,
            reg_offset(i)
        );

        // monotone in frame-processing order
        if k > 0 {
            let p = dc_devs[k - 1];

            ensure!(
                reg_delay(i) >= reg_delay(p),
                format!("C17|delay-decreases{suffix}"),
                "device {i} was given delay {} ns, the DC device before it in processing order ({p}) {} ns",
                reg_delay(i),
                reg_delay(p)
            );
        }

        let truth = arrivals[i][0].unwrap() - arrivals[first][0].unwrap();

        if pure_chain {
            ensure!(
                u64::from(reg_delay(i)) == truth,
                format!("C17|chain-delay{suffix}"),
                "chain of {n} devices (DC: {:?}, link delays {:?}): device {i} was given delay {} ns, the frame reaches it {truth} ns after the first DC device ({first})",
                case.dc,
                case.link_delay,
                reg_delay(i)
            );
        } else {
            // derived from the true upstream neighbour: never less than the nearest DC ancestor
            let mut a = wiring[i].0;

            while let Some(p) = a {
                if case.dc[p] != DcKind::None {
                    break;
                }

                a = wiring[p].0;
            }

            if let Some(p) = a {
                if p >= first {
                    ensure!(
                        reg_delay(i) >= reg_delay(p),
                        format!("C17|delay-below-upstream{suffix}"),
                        "device {i} hangs below device {p}; it was given delay {} ns, its upstream device {} ns",
                        reg_delay(i),
                        reg_delay(p)
                    );
                }
            }

            // The time the reference clock's time stamp needs to reach the device is the time
            // the frame needs: it includes the round trips through branches visited earlier
            let all_dc = dc_devs.len() == n;

            let junctions = (0..n).filter(|j| children_of(*j) >= 2).count();

            if all_dc {
                info.label(if u64::from(reg_delay(i)) == truth {
                    if junctions == 1 { "one-junction-all-dc-tree-delay-equals-frame-delay" } else { "all-dc-tree-delay-equals-frame-delay" }
                } else if junctions == 1 {
                    "one-junction-all-dc-tree-delay-differs-from-frame-delay"
                } else {
                    "all-dc-tree-delay-differs-from-frame-delay"
                });

                if u64::from(reg_delay(i)) != truth && std::env::var_os("VERIF_DEBUG").is_some() {
                    eprintln!("device {i}: delay {} truth {truth}; down_ports {:?} link {:?}", reg_delay(i), case.down_ports, case.link_delay);
                }
            }
        }
    }

    // ---- metamorphic: a slower link moves exactly what lies behind it --------------------------
    if let (Some((j, by)), true) = (case.perturb, straddles.is_empty()) {
        let j = usize::from(j);

        if j > 0 {
            let mut slower = case.clone();

            slower.link_delay[j] += u32::from(by);
            slower.wrap = vec![None; n];
            slower.perturb = None;

            let mut plain = case.clone();

            plain.wrap = vec![None; n];

            let (o1, n1) = c17_run(&plain, &plain.clock_offset)?;
            let (o2, n2) = c17_run(&slower, &slower.clock_offset)?;
            let (n1, n2) = (n1.borrow(), n2.borrow());

            if o1.res.is_ok() && o2.res.is_ok() {
                info.label("metamorphic-slower-link");

                let d = |net: &Network, i: usize| u32::from_le_bytes(net.devices[i].mem[simnet::R_DC_DELAY..simnet::R_DC_DELAY + 4].try_into().unwrap());

                for i in dc_devs.iter().filter(|i| **i < j) {
                    // the parent of device i is a cross (4 open ports)?
                    let under_cross = wiring[*i].0.map(|p| wiring[p].1.iter().filter(|o| **o).count() == 4).unwrap_or(false);

                    ensure!(
                        d(&n1, *i) == d(&n2, *i),
                        format!("C17|delay-depends-on-later-link{}", if under_cross { "|child-of-cross" } else { "" }),
                        "making the link of device {j} {by} ns slower changed the delay of device {i}, which the frame reaches earlier, from {} to {} ns (tree: downstream ports {:?}, DC {:?})",
                        d(&n1, *i),
                        d(&n2, *i),
                        case.down_ports,
                        case.dc
                    );
                }

                if dc_devs.len() == n {
                    let under_cross = wiring[j].0.map(|p| wiring[p].1.iter().filter(|o| **o).count() == 4).unwrap_or(false);

                    ensure!(
                        d(&n2, j) == d(&n1, j) + u32::from(by),
                        format!("C17|delay-ignores-own-link{}", if under_cross { "|child-of-cross" } else { "" }),
                        "making the link of device {j} {by} ns slower changed its delay from {} to {} ns (tree: downstream ports {:?})",
                        d(&n1, j),
                        d(&n2, j),
                        case.down_ports
                    );
                }
            }
        }
    }

    Ok(())
}

// ---------------------------------------------------------------------------------------------
// C18
// ---------------------------------------------------------------------------------------------

#[derive(Serialize, Deserialize, Clone, Copy, Debug, PartialEq, Eq, Hash)]
pub enum SyncMode {
    Disabled,
    Sync0,
    /// SYNC1 period in ns
    Sync01(u64),
}

#[derive(Serialize, Deserialize, Clone, Debug, PartialEq, Eq, Hash)]
pub struct C18Case {
    /// Per device: DC capability and requested sync mode
    pub devices: Vec<(DcKind, SyncMode)>,
    pub period_ns: u64,
    pub delay_ns: u64,
    pub shift_ns: u64,
    /// Reference clock time during configure_dc_sync
    pub ref_time: u64,
    /// Reference clock times answered in successive cycles
    pub cycle_times: Vec<u64>,
}

fn ns32() -> impl Strategy<Value = u64> {
    let m = u64::from(u32::MAX);

    prop_oneof![
        4 => 1u64..=m,
        2 => prop::sample::select(vec![1u64, 2, 3, 7, 10, 1000, 62_500, 125_000, 250_000, 1_000_000, 2_000_000, 1 << 31, (1 << 31) + 1, m - 1, m]),
        1 => prop::sample::select(vec![m + 1, m + 2, 1 << 33, u64::MAX / 2, u64::MAX]),
    ]
}

fn t64() -> impl Strategy<Value = u64> {
    prop_oneof![
        3 => any::<u64>(),
        2 => (0u32..64, -2i64..=2).prop_map(|(p, d)| (1u64 << p).wrapping_add(d as u64)),
        1 => prop::sample::select(vec![0u64, 1, u64::from(u32::MAX), u64::from(u32::MAX) + 1, u64::MAX - 1, u64::MAX]),
        2 => 0u64..(1 << 40),
    ]
}

pub fn c18_case() -> impl Strategy<Value = C18Case> {
    (
        prop::collection::vec(
            (
                prop_oneof![2 => Just(DcKind::None), 1 => Just(DcKind::RefOnly), 2 => Just(DcKind::Bits32), 3 => Just(DcKind::Bits64)],
                prop_oneof![2 => Just(SyncMode::Disabled), 3 => Just(SyncMode::Sync0), 2 => ns32().prop_map(SyncMode::Sync01)],
            ),
            1..=8,
        ),
        ns32(),
        prop_oneof![1 => Just(0u64), 4 => ns32()],
        // shift: the same range, "just above" ends at 2^33 (beyond that period - offset + shift
        // has no 64 bit result)
        prop_oneof![1 => Just(0u64), 4 => ns32().prop_map(|s| s.min(1 << 33))],
        t64(),
        prop::collection::vec(t64(), 1..4),
    )
        .prop_map(|(devices, period_ns, delay_ns, shift_ns, ref_time, cycle_times)| {
            // set-up clause: the stated interval must exist, i.e. reference time + delay fits u64
            let ref_time = ref_time.min(u64::MAX - delay_ns);

            C18Case { devices, period_ns, delay_ns, shift_ns, ref_time, cycle_times }
        })
}

pub const C18_RULE: &str = "case = (group of 1..8 devices, each with DC capability none / reference only / 32 bit / 64 bit and DcSync disabled / SYNC0 / SYNC0+SYNC1 with a generated SYNC1 period; SYNC0 period, start delay and shift from 1 ns to u32::MAX and just above (edge values, powers of two +-1), reference clock time during set-up and in 1..3 cycles over all of u64 (boundaries, powers of two +-2)); non-trivial = period not a power of two and a cycle time >= 2^32, or a rejected configuration; distinct by hash of the case";

#[derive(Debug, Clone)]
struct C18Obs {
    conf: Result<(), String>,
    no_reference: bool,
    cycles: Vec<Result<(u64, u128, u128), String>>,
}

pub fn run_c18(case: &C18Case, info: &mut CaseInfo) -> Result<(), Fail> {
    use ethercrab::{DcSync, subdevice_group::DcConfiguration};
    use std::time::Duration;

    let n = case.devices.len();
    let c17 = C17Case {
        down_ports: vec![1; n],
        dc: case.devices.iter().map(|d| d.0).collect(),
        link_delay: vec![100; n],
        clock_offset: vec![0; n],
        wrap: vec![None; n],
        now: 0,
        static_sync: 0,
        bogus: None,
        perturb: None,
    };

    let knobs: Vec<DevKnobs> = (0..n)
        .map(|i| {
            let mut k = c17_knobs(i, &c17, 0);

            // one byte of process data each, so that the cycle has something to carry
            k.in_sms = vec![vec![vec![8]]];

            k
        })
        .collect();

    let spec: NetSpec = simgen::build_net(&knobs, &[], &[]);
    let net: NetHandle = Rc::new(RefCell::new(Network::new(&spec)));
    let cfg = SimConfig { dc_static_sync_iterations: 0, ..Default::default() };
    let c = case.clone();
    let net2 = net.clone();
    let reference = case.devices.iter().position(|d| d.0 != DcKind::None);

    let obs: Result<C18Obs, Error> = simexec::run(&net, &cfg, |md| {
        Box::pin(async move {
            let mut group = md.init_single_group::<8, 64>(|| 0).await?;

            for (i, mut sd) in group.iter_mut(md).enumerate() {
                sd.set_dc_sync(match c.devices[i].1 {
                    SyncMode::Disabled => DcSync::Disabled,
                    SyncMode::Sync0 => DcSync::Sync0,
                    SyncMode::Sync01(p) => DcSync::Sync01 { sync1_period: Duration::from_nanos(p) },
                });
            }

            let group = group.into_pre_op_pdi(md).await?;

            {
                let mut n = net2.borrow_mut();

                for d in n.devices.iter_mut() {
                    d.dc_sync_log.clear();
                }

                if let Some(r) = reference {
                    n.devices[r].sys_time_force = Some(c.ref_time);
                }
            }

            let conf = DcConfiguration {
                start_delay: Duration::from_nanos(c.delay_ns),
                sync0_period: Duration::from_nanos(c.period_ns),
                sync0_shift: Duration::from_nanos(c.shift_ns),
            };

            let group = match group.configure_dc_sync(md, conf).await {
                Ok(g) => g,
                Err(e) => {
                    return Ok(C18Obs { conf: Err(format!("{e:?}")), no_reference: matches!(e, Error::DistributedClock(ethercrab::error::DistributedClockError::NoReference)), cycles: vec![] });
                }
            };

            let mut cycles = Vec::new();

            for t in &c.cycle_times {
                if let Some(r) = reference {
                    net2.borrow_mut().devices[r].sys_time_force = Some(*t);
                }

                cycles.push(
                    group
                        .tx_rx_dc(md)
                        .await
                        .map(|r| (r.extra.dc_system_time, r.extra.cycle_start_offset.as_nanos(), r.extra.next_cycle_wait.as_nanos()))
                        .map_err(|e| format!("{e:?}")),
                );
            }

            Ok(C18Obs { conf: Ok(()), no_reference: false, cycles })
        })
    })
    .map_err(|e| sim_fail("C18", e))?;

    let obs = match obs {
        Ok(o) => o,
        Err(e) => fail!("C18|harness-init", "init of {n} healthy devices failed: {e:?}"),
    };

    let net = net.borrow();
    let m = u64::from(u32::MAX);
    let period = case.period_ns;
    let sync1_too_long = case.devices.iter().any(|d| d.0 != DcKind::None && matches!(d.1, SyncMode::Sync01(p) if p > m));
    let out_of_range = period > m || case.delay_ns > m;

    info.count("devices", n as u64);

    // ---- no reference clock -----------------------------------------------------------------
    if reference.is_none() {
        info.label("no-reference-clock");
        info.nontrivial = true;

        ensure!(obs.no_reference, "C18|no-reference", "no device supports DC: expected DistributedClock(NoReference), got {:?}", obs.conf);

        for (i, d) in net.devices.iter().enumerate() {
            ensure!(d.dc_sync_log.is_empty(), "C18|touches-device-without-dc", "device {i} has no DC but its DC sync registers were written: {:x?}", d.dc_sync_log);
        }

        return Ok(());
    }

    // ---- rejected configurations ------------------------------------------------------------
    if out_of_range {
        info.label("period-or-delay-beyond-32-bit");
        info.nontrivial = true;

        ensure!(obs.conf.is_err(), "C18|out-of-range-accepted", "SYNC0 period {period} ns, start delay {} ns: one of them exceeds u32::MAX ns but configure_dc_sync succeeded", case.delay_ns);

        for (i, d) in net.devices.iter().enumerate() {
            ensure!(d.dc_sync_log.is_empty(), "C18|registers-written-before-rejection", "the configuration was rejected, but DC sync registers of device {i} were written: {:x?}", d.dc_sync_log);
        }

        return Ok(());
    }

    if sync1_too_long {
        info.label("sync1-period-beyond-32-bit");
        info.nontrivial = true;

        ensure!(obs.conf.is_err(), "C18|out-of-range-accepted|sync1-period", "a SYNC1 period exceeds u32::MAX ns but configure_dc_sync succeeded ({:?})", case.devices);

        return Ok(());
    }

    // the stated interval must exist
    let Some(sum) = case.ref_time.checked_add(case.delay_ns) else {
        info.label("reference-time-plus-delay-beyond-u64");

        return Ok(());
    };

    if let Err(e) = &obs.conf {
        fail!("C18|valid-configuration-rejected", "SYNC0 period {period} ns, delay {} ns, shift {} ns, reference time {}: configure_dc_sync failed: {e}", case.delay_ns, case.shift_ns, case.ref_time);
    }

    // ---- registers --------------------------------------------------------------------------
    for (i, (dc, mode)) in case.devices.iter().enumerate() {
        let d = &net.devices[i];
        let wants = *dc != DcKind::None && *mode != SyncMode::Disabled;

        if !wants {
            ensure!(
                d.dc_sync_log.is_empty(),
                "C18|touches-device-that-did-not-ask",
                "device {i} ({dc:?}, {mode:?}) must not be touched, but its DC sync registers were written: {:x?}",
                d.dc_sync_log
            );

            continue;
        }

        let start = u64::from_le_bytes(d.mem[simnet::R_DC_START_TIME..simnet::R_DC_START_TIME + 8].try_into().unwrap());
        let cyc0 = u32::from_le_bytes(d.mem[simnet::R_DC_SYNC0_CYCLE..simnet::R_DC_SYNC0_CYCLE + 4].try_into().unwrap());
        let cyc1 = u32::from_le_bytes(d.mem[simnet::R_DC_SYNC1_CYCLE..simnet::R_DC_SYNC1_CYCLE + 4].try_into().unwrap());
        let act = d.mem[simnet::R_DC_SYNC_ACTIVE];

        ensure!(start % period == 0, "C18|start-time-not-multiple", "device {i}: SYNC0 start time {start} is not a multiple of the period {period}");
        ensure!(
            start <= sum && u128::from(start) + u128::from(period) > u128::from(sum),
            "C18|start-time-interval",
            "device {i}: reference time {} + delay {} = {sum}, period {period}: start time {start} is not in ({}, {sum}]",
            case.ref_time,
            case.delay_ns,
            i128::from(sum) - i128::from(period)
        );
        ensure!(u64::from(cyc0) == period, "C18|sync0-cycle-time", "device {i}: SYNC0 cycle time register holds {cyc0}, configured {period}");

        match mode {
            SyncMode::Sync01(p) => {
                ensure!(u64::from(cyc1) == *p, "C18|sync1-cycle-time", "device {i}: SYNC1 cycle time register holds {cyc1}, configured {p}");
                ensure!(act == 0x07, "C18|activation-flags", "device {i} (SYNC0 + SYNC1): activation register holds {act:#04x}, expected 0x07");
            }
            _ => ensure!(act == 0x03, "C18|activation-flags", "device {i} (SYNC0): activation register holds {act:#04x}, expected 0x03"),
        }
    }

    // ---- cycles -----------------------------------------------------------------------------
    for (k, t) in case.cycle_times.iter().enumerate() {
        let (time, offset, wait) = match &obs.cycles[k] {
            Ok(r) => *r,
            Err(e) => fail!("C18|cycle-failed", "tx_rx_dc with reference time {t} failed: {e}"),
        };

        let want_offset = u128::from(*t % period);
        let want_wait = u128::from(period) - want_offset + u128::from(case.shift_ns);

        if !period.is_power_of_two() && *t >= 1 << 32 {
            info.nontrivial = true;
        }

        ensure!(time == *t, "C18|cycle-time", "the reference clock answered {t}, the cycle reports {time}");
        ensure!(offset == want_offset, "C18|cycle-offset", "reference time {t}, period {period}: cycle_start_offset is {offset} ns, expected {want_offset}");
        ensure!(wait == want_wait, "C18|next-cycle-wait", "reference time {t}, period {period}, shift {}: next_cycle_wait is {wait} ns, expected {want_wait}", case.shift_ns);
    }

    Ok(())
}
