//! Check drivers for the yield-level engine (C02, and the schedule parts of C01 and C06).

use crate::{
    a2::{self, Case, Outcome, ReqScript, RunConfig, RxAction, Scenario, Schedule},
    core::*,
    pdusim::{PushSpec, Retry, TxOutcome},
    wire::Cmd,
};
use proptest::prelude::*;
use serde_json::json;
use std::sync::{
    Mutex,
    atomic::{AtomicU64, AtomicUsize, Ordering},
};

pub fn small_req(seed: u8) -> ReqScript {
    ReqScript {
        pushes: vec![PushSpec {
            cmd: Cmd::Fprd { addr: 0x1000 + u16::from(seed), reg: 0x0130 },
            len: 2,
            seed,
        }],
        drop_unsent: false,
        iter_mode: false,
        hold_view: false,
        abandon_after: None,
    }
}

pub fn fixed_scenario(slots: u8, tasks: usize, reqs_per_task: usize) -> Scenario {
    Scenario {
        slots,
        frame_size: 44,
        retry: Retry::None,
        timeout_us: 1_000_000_000,
        tasks: (0..tasks)
            .map(|t| (0..reqs_per_task).map(|r| small_req((t * 10 + r) as u8)).collect())
            .collect(),
        tx_outcomes: vec![TxOutcome::Ok],
        rx_plan: vec![RxAction::Genuine],
        world: vec![],
    }
}

/// Small scenarios for the systematic C06 sweep: a request whose responses are lost / late, a
/// competitor for the same slot, and a clock that steps across the deadlines.
pub fn c06_scenarios() -> Vec<(&'static str, Scenario)> {
    let mut v = Vec::new();

    for (name, retry, rx_plan, abandon) in [
        ("lost-retry1", Retry::Count(1), vec![RxAction::Lose, RxAction::Genuine], None),
        ("lost-noretry", Retry::None, vec![RxAction::Lose, RxAction::Genuine], None),
        ("answered-retry1", Retry::Count(1), vec![RxAction::Genuine], None),
        ("abandon", Retry::None, vec![RxAction::Genuine], Some(0u8)),
        ("abandon-retry1", Retry::Count(1), vec![RxAction::Lose, RxAction::Genuine], Some(1u8)),
    ] {
        let mut a = small_req(1);

        a.abandon_after = abandon;

        v.push((
            name,
            Scenario {
                slots: 1,
                frame_size: 44,
                retry,
                timeout_us: 100,
                tasks: vec![vec![a], vec![small_req(2), small_req(3)]],
                tx_outcomes: vec![TxOutcome::Ok],
                rx_plan,
                world: vec![100, 100, 100, 100, 100, 100],
            },
        ));
    }

    v
}

fn classify(o: &Outcome, info: &mut CaseInfo, property: &str) {
    info.count("steps", u64::from(o.steps));
    info.count("hook_events", o.hook_events);
    info.count("completed_ok", u64::from(o.completed_ok));
    info.count("alloc_failed", u64::from(o.alloc_failed));
    info.count("preemptions", u64::from(o.preemptions));
    info.count("timeouts", u64::from(o.timeouts));
    info.count("abandoned", u64::from(o.abandoned));

    if o.preempted_inside_window {
        info.label("preempted-inside-ownership-window");
    }

    if o.alloc_failed > 0 {
        info.label("allocation-contended");
    }

    if o.injected_inside_txrx {
        info.label("expiry-or-abandon-inside-tx-rx-window");
    }

    if o.timeouts > 0 {
        info.label("timed-out");
    }

    info.nontrivial = match property {
        "C06" => o.injected_inside_txrx || o.timeouts > 0 || o.abandoned > 0,
        _ => o.preempted_inside_window,
    };
}

fn judge(property: &'static str, case: &Case, c06: bool, info: &mut CaseInfo) -> Result<(), Fail> {
    match catch(|| a2::execute(case, &RunConfig { c06_domain: c06 })) {
        Ok(Ok(o)) => {
            classify(&o, info, property);

            Ok(())
        }
        Ok(Err(f)) => {
            if f.signature.starts_with(&format!("{property}|")) || f.signature.starts_with("harness") {
                Err(f)
            } else {
                info.label(format!("foreign:{}", f.signature));

                Ok(())
            }
        }
        Err(p) => Err(Fail::new(format!("harness-panic|{}", panic_site(&p)), p)),
    }
}

/// Bounded-exhaustive exploration: every schedule of `scenario` with at most `max_preempt`
/// pre-emptions of the default (run-to-block) policy.
pub fn explore(check: &mut Check, name: &str, scenario: &Scenario, max_preempt: usize, c06: bool, budget: u64) {
    let property = check.property;
    let queue: Mutex<Vec<Vec<(u32, u8)>>> = Mutex::new(vec![vec![]]);
    let active = AtomicUsize::new(0);
    let executed = AtomicU64::new(0);
    let truncated = std::sync::atomic::AtomicBool::new(false);
    let results: Mutex<Vec<(serde_json::Value, CaseInfo, Result<(), Fail>)>> = Mutex::new(Vec::new());
    let stop = std::sync::atomic::AtomicBool::new(false);

    std::thread::scope(|scope| {
        for _ in 0..16 {
            scope.spawn(|| {
                loop {
                    if stop.load(Ordering::SeqCst) {
                        break;
                    }

                    let job = {
                        let mut q = queue.lock().unwrap();
                        let j = q.pop();

                        if j.is_some() {
                            active.fetch_add(1, Ordering::SeqCst);
                        }

                        j
                    };

                    let Some(points) = job else {
                        if active.load(Ordering::SeqCst) == 0 {
                            break;
                        }

                        std::thread::sleep(std::time::Duration::from_micros(200));

                        continue;
                    };

                    if executed.fetch_add(1, Ordering::SeqCst) >= budget {
                        truncated.store(true, Ordering::SeqCst);
                        active.fetch_sub(1, Ordering::SeqCst);

                        break;
                    }

                    let case = Case {
                        scenario: scenario.clone(),
                        schedule: Schedule::Preempt(points.clone()),
                    };

                    let mut info = CaseInfo::default();

                    let (res, trace) = match catch(|| a2::execute(&case, &RunConfig { c06_domain: c06 })) {
                        Ok(Ok(o)) => {
                            classify(&o, &mut info, property);

                            (Ok(()), o.trace)
                        }
                        Ok(Err(f)) => {
                            if f.signature.starts_with(&format!("{property}|")) || f.signature.starts_with("harness") {
                                (Err(f), vec![])
                            } else {
                                info.label(format!("foreign:{}", f.signature));

                                (Ok(()), vec![])
                            }
                        }
                        Err(p) => (Err(Fail::new(format!("harness-panic|{}", panic_site(&p)), p)), vec![]),
                    };

                    // Children: one more pre-emption at a later step
                    if points.len() < max_preempt && res.is_ok() {
                        let from = points.last().map(|(s, _)| *s + 1).unwrap_or(0);
                        let mut q = queue.lock().unwrap();

                        for (t, (mask, _chosen, default)) in trace.iter().enumerate() {
                            let t = t as u32;

                            if t < from {
                                continue;
                            }

                            for p in 0..16u8 {
                                if mask & (1 << p) != 0 && p != *default {
                                    let mut child = points.clone();

                                    child.push((t, p));
                                    q.push(child);
                                }
                            }
                        }
                    }

                    let failed = res.is_err();

                    results
                        .lock()
                        .unwrap()
                        .push((serde_json::to_value(&case).unwrap(), info, res));

                    active.fetch_sub(1, Ordering::SeqCst);

                    if failed {
                        stop.store(true, Ordering::SeqCst);
                    }
                }
            });
        }
    });

    let results = results.into_inner().unwrap();
    let n = results.len();
    let kind = format!("a2-exhaustive:{name}");

    // Report the failure with the fewest pre-emptions / earliest points first (minimal replay)
    let mut results = results;

    results.sort_by_key(|(c, _, r)| (r.is_ok(), c["schedule"]["Preempt"].as_array().map(|a| a.len()).unwrap_or(0), c["schedule"].to_string()));

    for (case, info, res) in results {
        check.record_case(&kind, &case, &info, res);
    }

    let exhaustive = !truncated.load(Ordering::SeqCst) && !stop.load(Ordering::SeqCst);

    check.stats.sub_runs.push(json!({
        "kind": kind,
        "schedules_executed": n,
        "max_preemptions": max_preempt,
        "exhaustive_within_bound": exhaustive,
    }));
}

// ---------------------------------------------------------------------------------------------
// Random scenarios / schedules
// ---------------------------------------------------------------------------------------------

fn req_script(c06: bool) -> impl Strategy<Value = ReqScript> {
    (
        prop::collection::vec(
            (crate::r#gen::cmd(), 0u16..6, any::<u8>()).prop_map(|(cmd, len, seed)| PushSpec { cmd, len, seed }),
            1..=2,
        ),
        prop::bool::weighted(0.1),
        prop::bool::weighted(0.3),
        prop::bool::weighted(0.3),
        if c06 {
            prop_oneof![3 => Just(None), 1 => (0u8..3).prop_map(Some)].boxed()
        } else {
            Just(None).boxed()
        },
    )
        .prop_map(|(pushes, drop_unsent, iter_mode, hold_view, abandon_after)| ReqScript {
            pushes,
            drop_unsent,
            iter_mode,
            hold_view,
            abandon_after,
        })
}

pub fn scenario(c06: bool, thorough: bool) -> impl Strategy<Value = Scenario> {
    let slots = if thorough { vec![1u8, 2, 4] } else { vec![1u8, 2, 4] };

    (
        prop::sample::select(slots),
        prop::sample::select(vec![44u16, 60]),
        if c06 {
            prop::sample::select(vec![Retry::None, Retry::Count(1), Retry::Count(2)]).boxed()
        } else {
            Just(Retry::None).boxed()
        },
        if c06 { (50u32..500).boxed() } else { Just(1_000_000_000u32).boxed() },
        prop::collection::vec(prop::collection::vec(req_script(c06), 1..=3), 1..=3),
        if c06 {
            prop::collection::vec(prop_oneof![4 => Just(TxOutcome::Ok), 1 => Just(TxOutcome::Err), 1 => any::<u16>().prop_map(TxOutcome::Partial)], 1..4).boxed()
        } else {
            prop::collection::vec(prop_oneof![6 => Just(TxOutcome::Ok), 1 => Just(TxOutcome::Err), 1 => any::<u16>().prop_map(TxOutcome::Partial)], 1..4).boxed()
        },
        if c06 {
            prop::collection::vec(prop_oneof![3 => Just(RxAction::Genuine), 1 => Just(RxAction::Duplicate), 2 => Just(RxAction::Lose)], 1..4).boxed()
        } else {
            prop::collection::vec(prop_oneof![4 => Just(RxAction::Genuine), 1 => Just(RxAction::Duplicate)], 1..4).boxed()
        },
        if c06 { prop::collection::vec(20u32..600, 4..24).boxed() } else { Just(vec![]).boxed() },
    )
        .prop_map(|(slots, frame_size, retry, timeout_us, tasks, mut tx_outcomes, rx_plan, world)| {
            // The transmit side eventually succeeds (otherwise nothing can ever complete)
            tx_outcomes.push(TxOutcome::Ok);

            Scenario {
            slots,
            frame_size,
            retry,
            timeout_us,
            tasks,
            tx_outcomes,
            rx_plan,
            world,
            }
        })
}

pub fn random_case(c06: bool, thorough: bool) -> impl Strategy<Value = Case> {
    (
        scenario(c06, thorough),
        prop_oneof![
            2 => any::<u64>().prop_map(Schedule::Random),
            2 => (any::<u64>(), prop::collection::vec(0u32..300, 0..=3)).prop_map(|(seed, mut changes)| {
                changes.sort();
                changes.dedup();
                Schedule::Pct { seed, changes }
            }),
            1 => prop::collection::vec((0u32..200, 0u8..6), 0..=3).prop_map(|mut p| {
                p.sort();
                p.dedup_by_key(|x| x.0);
                Schedule::Preempt(p)
            }),
        ],
    )
        .prop_map(|(scenario, schedule)| Case { scenario, schedule })
}

pub fn run_random(check: &mut Check, kind: &str, cases: u32, c06: bool) {
    let property = check.property;
    let thorough = check.tier() == Tier::Thorough;

    check.run_prop(kind, 16, cases, move || random_case(c06, thorough), move |case: &Case, info: &mut CaseInfo| judge(property, case, c06, info));
}

pub fn replay(property: &'static str, path: &std::path::Path, c06: bool) -> ! {
    let (_k, case): (String, Case) = load_replay(path);
    let mut info = CaseInfo::default();
    let res = judge(property, &case, c06, &mut info);

    finish_replay(property, path, res)
}

/// Committed regression replays of this property that belong to the A2 engine.
pub fn regressions(check: &mut Check, c06: bool) {
    let dir = std::path::PathBuf::from(VERIF_ROOT).join("replays").join(check.property);

    let Ok(rd) = std::fs::read_dir(&dir) else {
        return;
    };

    let mut files: Vec<_> = rd
        .filter_map(|e| e.ok().map(|e| e.path()))
        .filter(|p| p.extension().map(|e| e == "json").unwrap_or(false) && !p.file_name().unwrap().to_string_lossy().starts_with("violation-"))
        .collect();

    files.sort();

    let property = check.property;

    for path in files {
        let kind = replay_kind(&path);

        if !kind.starts_with("a2-") {
            continue;
        }

        let (_k, case): (String, Case) = load_replay(&path);
        let mut info = CaseInfo::default();
        let res = judge(property, &case, c06, &mut info);

        info.label("regression-replay");

        check.record_case(&kind, &serde_json::to_value(&case).unwrap(), &info, res);
    }
}

pub fn c02(mut check: Check) -> ! {
    let tier = check.tier();
    let p = tier.pick(3, 4);

    check.rule = "case = (scenario: slots, 1..3 task scripts, send outcomes, duplicate responses) x (schedule at the granularity of the verif-hooks yield points); bounded-exhaustive enumeration of all schedules with <= P pre-emptions for {1 slot/2 tasks, 1 slot/3 tasks, 2 slots/2 tasks}, random + PCT schedules beyond; non-trivial = a party was pre-empted while it owned a buffer (between claim and release); distinct by hash of scenario+schedule".into();
    check.assumptions = vec![
        "sequentially consistent interleavings of the instrumented yield points only; memory-ordering weakenings are invisible".into(),
        "ownership windows are derived from the hook events (claim/release points) of the real code".into(),
        "no deadline expires and no request is abandoned while TX/RX is inside (that window is C06)".into(),
    ];

    regressions(&mut check, false);

    explore(&mut check, "1slot-2tasks", &fixed_scenario(1, 2, 1), p, false, tier.pick(400_000, 20_000_000));
    explore(&mut check, "1slot-3tasks", &fixed_scenario(1, 3, 1), tier.pick(2, 3), false, tier.pick(400_000, 20_000_000));
    explore(&mut check, "2slots-2tasks", &fixed_scenario(2, 2, 2), tier.pick(2, 3), false, tier.pick(400_000, 20_000_000));

    run_random(&mut check, "a2-random", tier.pick(3_000, 100_000), false);

    check.finish()
}
