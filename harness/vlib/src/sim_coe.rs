//! CoE checks on the simulated segment: C15 (SDO transfers deliver exactly the object's bytes).

use crate::{
    core::*,
    ensure, fail,
    sim_checks::sim_fail,
    simexec::{self, NetHandle, SimConfig},
    simgen::DevKnobs,
    simnet::{DcKind, NetSpec, Network, ObjBehaviour, Object, UploadPolicy},
    util::hex,
};
use ethercrab::{
    SubIndex,
    error::{Error, MailboxError},
};
use proptest::prelude::*;
use serde::{Deserialize, Serialize};
use std::{cell::RefCell, rc::Rc};

pub const OBJ: u16 = 0x2100;

/// Buffer sizes the destination types are instantiated with
pub const NS: &[u16] = &[1, 2, 3, 4, 5, 6, 7, 8, 9, 10, 12, 16, 20, 32, 33, 64, 100, 128, 200, 256, 512];

#[derive(Serialize, Deserialize, Clone, Copy, Debug, PartialEq, Eq, Hash)]
pub enum Dest {
    U8,
    U16,
    U32,
    U64,
    I16,
    Arr(u16),
    Str(u16),
    VecU8(u16),
}

#[derive(Serialize, Deserialize, Clone, Debug, PartialEq, Eq, Hash)]
pub enum C15Op {
    Read { sub: u8, complete: bool, dest: Dest },
    Write { sub: u8, len: u8, value: [u8; 4] },
    /// element size 1, 2 or 4
    WriteArray { elem: u8, values: Vec<u32> },
    ReadArray { elem: u8, max: u8 },
}

#[derive(Serialize, Deserialize, Clone, Debug, PartialEq, Eq, Hash)]
pub struct C15Case {
    pub mbx: u16,
    /// Value bytes per sub-index of object 0x2100
    pub subs: Vec<Vec<u8>>,
    pub upload: UploadPolicy,
    pub behaviour: ObjBehaviour,
    pub op: C15Op,
    /// Bytes sitting in the device's out mailbox before the request
    pub stale: Option<Vec<u8>>,
    /// Requests issued before the one under test (moves the mailbox counter)
    pub warmup: u8,
}

fn obj_size() -> impl Strategy<Value = usize> {
    prop_oneof![
        1 => Just(0usize),
        4 => 1usize..=4,
        4 => 5usize..=16,
        4 => 17usize..=120,
        3 => 121usize..=512,
        3 => prop::sample::select(NS.iter().map(|n| usize::from(*n)).collect::<Vec<_>>()),
    ]
}

fn abort_codes() -> impl Strategy<Value = u32> {
    prop_oneof![
        6 => prop::sample::select(vec![
            0x0503_0000u32, 0x0504_0000, 0x0504_0001, 0x0504_0005, 0x0601_0000, 0x0601_0001, 0x0601_0002, 0x0601_0003, 0x0601_0004, 0x0601_0005, 0x0601_0006, 0x0602_0000,
            0x0604_0041, 0x0604_0042, 0x0604_0043, 0x0604_0047, 0x0606_0000, 0x0607_0010, 0x0607_0012, 0x0607_0013, 0x0609_0011, 0x0609_0030, 0x0609_0031, 0x0609_0032,
            0x0609_0036, 0x0800_0000, 0x0800_0020, 0x0800_0021, 0x0800_0022, 0x0800_0023,
        ]),
        1 => any::<u32>(),
    ]
}

fn policy() -> impl Strategy<Value = UploadPolicy> {
    let sizes = prop::collection::vec(prop_oneof![3 => 1u16..=7, 3 => 7u16..=20, 2 => 20u16..=600], 1..4);

    prop_oneof![
        3 => Just(UploadPolicy::Auto),
        1 => Just(UploadPolicy::PreferNormal),
        3 => sizes.clone().prop_map(UploadPolicy::Segmented),
        3 => (1u16..=300, sizes).prop_map(|(f, s)| UploadPolicy::SegmentedInitData(f, s)),
    ]
}

pub fn c15_case() -> impl Strategy<Value = C15Case> {
    (
        prop::sample::select(vec![16u16, 17, 24, 32, 40, 48, 64, 100, 128, 256, 512, 1024]),
        policy(),
        prop_oneof![
            6 => Just(ObjBehaviour::Normal),
            2 => abort_codes().prop_map(ObjBehaviour::Abort),
            1 => Just(ObjBehaviour::WrongIndex),
            1 => Just(ObjBehaviour::WrongSubIndex),
            1 => (any::<u16>(), any::<u8>()).prop_map(|(code, register)| ObjBehaviour::Emergency { code, register }),
        ],
        prop_oneof![2 => Just(None), 1 => prop::collection::vec(any::<u8>(), 6..40).prop_map(Some)],
        0u8..9,
        0u8..4,
    )
        .prop_flat_map(|(mbx, upload, behaviour, stale, warmup, kind)| {
            let op = match kind {
                // single value read
                0 | 1 => (obj_size(), 0u8..3, prop::bool::weighted(0.15), 0u8..8, any::<u64>(), prop::bool::weighted(0.2))
                    .prop_map(|(len, sub, complete, pick, seed, too_small)| {
                        // destination for an object of `len` bytes
                        let fit = |n: usize| NS.iter().copied().find(|x| usize::from(*x) >= n);
                        let smaller = |n: usize| NS.iter().copied().rev().find(|x| usize::from(*x) < n);

                        let dest = match (len, pick) {
                            (1, 0..=3) => Dest::U8,
                            (2, 0..=2) => Dest::U16,
                            (2, 3) => Dest::I16,
                            (4, 0..=3) => Dest::U32,
                            (8, 0..=3) => Dest::U64,
                            (l, p) => {
                                let exact = NS.contains(&(l as u16));
                                let n = if too_small && l > 4 { smaller(l) } else { None };

                                match (n, p % 3, exact) {
                                    (Some(n), 0, _) => Dest::Str(n),
                                    (Some(n), 1, _) => Dest::VecU8(n),
                                    (Some(n), _, _) => Dest::Arr(n),
                                    (None, 0, _) => Dest::Str(fit(l.max(1) + usize::from(p / 3) * 7).unwrap_or(512)),
                                    (None, 1, _) => Dest::VecU8(fit(l.max(1) + usize::from(p / 3) * 9).unwrap_or(512)),
                                    (None, _, true) if l > 0 => Dest::Arr(l as u16),
                                    (None, _, _) => Dest::VecU8(fit(l.max(1)).unwrap_or(512)),
                                }
                            }
                        };

                        // the sub-index under test holds `len` bytes; the others something else
                        let ascii = matches!(dest, Dest::Str(_));
                        let mk = |s: u64, n: usize| -> Vec<u8> {
                            crate::util::bytes_from_seed(seed ^ s, n).into_iter().map(|b| if ascii { 0x20 + (b % 0x5f) } else { b }).collect()
                        };

                        let mut subs = vec![vec![3u8], mk(1, 2), mk(2, 5), mk(3, 1)];

                        if complete {
                            // complete access returns everything from sub-index 1 on: size it to `len`
                            subs = vec![vec![1u8], mk(7, len)];
                        } else {
                            subs[usize::from(sub)] = mk(9, len);
                        }

                        (subs, C15Op::Read { sub: if complete { 1 } else { sub }, complete, dest })
                    })
                    .boxed(),
                2 => prop_oneof![
                    (0u8..4, 1u8..=4, any::<[u8; 4]>()).prop_map(|(sub, len, value)| (vec![vec![3u8], vec![0; 2], vec![0; 4], vec![0; 1]], C15Op::Write { sub, len, value })),
                    (prop::sample::select(vec![1u8, 2, 4]), prop::collection::vec(any::<u32>(), 0..6)).prop_map(|(elem, values)| (vec![vec![0u8]], C15Op::WriteArray { elem, values })),
                ]
                .boxed(),
                _ => (prop::sample::select(vec![1u8, 2, 4]), 0usize..7, prop::sample::select(vec![1u8, 4, 8]), any::<u64>())
                    .prop_map(|(elem, n, max, seed)| {
                        let mut subs = vec![vec![n as u8]];

                        for i in 0..n {
                            subs.push(crate::util::bytes_from_seed(seed ^ i as u64, usize::from(elem)));
                        }

                        (subs, C15Op::ReadArray { elem, max })
                    })
                    .boxed(),
            };

            op.prop_map(move |(subs, op)| C15Case { mbx, subs, upload: upload.clone(), behaviour: behaviour.clone(), op, stale: stale.clone(), warmup })
        })
}

pub const C15_RULE: &str = "case = (mailbox size 16..1024; object 0x2100 with generated sub-index values of 0..512 bytes; device upload policy expedited-when-small | prefer normal | segmented with generated segment lengths (1..600, incl. last segments shorter than 7 bytes) without or with data in the initiate response; behaviour normal | abort with a table or arbitrary code | reply for another index | emergency; operation sdo_read into u8/u16/i16/u32/u64/[u8;N]/String<N>/Vec<u8,N> (N from 21 sizes, also smaller than the object), complete access, sdo_write of 1..4 bytes, sdo_write_array, sdo_read_array; stale bytes in the out mailbox; 0..8 earlier requests); non-trivial = a segmented transfer with >= 2 segments or a last segment < 7 bytes, or an error reply, or stale mailbox content; distinct by hash of the case";

#[derive(Debug, Clone, PartialEq, Eq)]
pub enum EKind {
    Aborted { code: u32, address: u16, sub: u8 },
    Emergency { code: u16, register: u8 },
    Invalid { address: u16, sub: u8 },
    TooLong { address: u16, sub: u8 },
    Capacity,
    Other(String),
}

pub fn ekind(e: &Error) -> EKind {
    match e {
        Error::Mailbox(MailboxError::Aborted { code, address, sub_index }) => EKind::Aborted { code: u32::from(*code), address: *address, sub: *sub_index },
        Error::Mailbox(MailboxError::Emergency { error_code, error_register }) => EKind::Emergency { code: *error_code, register: *error_register },
        Error::Mailbox(MailboxError::SdoResponseInvalid { address, sub_index }) => EKind::Invalid { address: *address, sub: *sub_index },
        Error::Mailbox(MailboxError::TooLong { address, sub_index }) => EKind::TooLong { address: *address, sub: *sub_index },
        Error::Capacity(_) => EKind::Capacity,
        other => EKind::Other(format!("{other:?}")),
    }
}

pub fn coe_device(mbx: u16, od: Vec<Object>, upload: UploadPolicy, seed: u64) -> crate::simnet::DeviceSpec {
    let k = DevKnobs {
        name: b"COE".to_vec(),
        long_name: b"CoE device".to_vec(),
        vendor: 1,
        product: 2,
        revision: 3,
        serial: 4,
        alias: 0,
        stale_addr: 0,
        mailbox: true,
        coe: true,
        mbx_size: mbx,
        out_sms: vec![],
        in_sms: vec![],
        fmmu_ex: false,
        dc: DcKind::None,
        chunk8: true,
        sii_busy_polls: 0,
        strict: false,
        unknown_cats: 0,
        input_seed: seed,
        clock_offset: 0,
        link_delay: 100,
        down_ports: 1,
        complete_access: true,
        oversampling: vec![],
        noncontig: false,
        unnamed: false,
    };

    k.build(None, [true, false, false, false], crate::simgen::accept_all(), upload, od)
}

macro_rules! with_n {
    ($n:expr, $N:ident => $body:expr) => {
        match $n {
            1 => { const $N: usize = 1; $body }
            2 => { const $N: usize = 2; $body }
            3 => { const $N: usize = 3; $body }
            4 => { const $N: usize = 4; $body }
            5 => { const $N: usize = 5; $body }
            6 => { const $N: usize = 6; $body }
            7 => { const $N: usize = 7; $body }
            8 => { const $N: usize = 8; $body }
            9 => { const $N: usize = 9; $body }
            10 => { const $N: usize = 10; $body }
            12 => { const $N: usize = 12; $body }
            16 => { const $N: usize = 16; $body }
            20 => { const $N: usize = 20; $body }
            32 => { const $N: usize = 32; $body }
            33 => { const $N: usize = 33; $body }
            64 => { const $N: usize = 64; $body }
            100 => { const $N: usize = 100; $body }
            128 => { const $N: usize = 128; $body }
            200 => { const $N: usize = 200; $body }
            256 => { const $N: usize = 256; $body }
            _ => { const $N: usize = 512; $body }
        }
    };
}

pub fn run_c15(case: &C15Case, info: &mut CaseInfo) -> Result<(), Fail> {
    let od = vec![
        Object { index: OBJ, subs: case.subs.clone(), behaviour: case.behaviour.clone() },
        // a healthy object for the warm-up requests
        Object { index: 0x1f80, subs: vec![vec![1], vec![0xaa, 0xbb]], behaviour: ObjBehaviour::Normal },
    ];

    let spec = NetSpec { devices: vec![coe_device(case.mbx, od, case.upload.clone(), 1)] };
    let net: NetHandle = Rc::new(RefCell::new(Network::new(&spec)));
    let cfg = SimConfig::default();
    let c = case.clone();
    let net2 = net.clone();

    type Out = Result<Vec<u8>, EKind>;

    let res: Result<(Out, usize, usize, usize), Error> = simexec::run(&net, &cfg, |md| {
        Box::pin(async move {
            let group = md.init_single_group::<2, 8>(|| 0).await?;
            let sd = group.subdevice(md, 0)?;

            for _ in 0..c.warmup {
                let _ = sd.sdo_read::<u16>(0x1f80, 1).await?;
            }

            if let Some(stale) = &c.stale {
                net2.borrow_mut().devices[0].queue_reply(stale.clone());
            }

            let (req0, dl0, ul0) = {
                let n = net2.borrow();
                let s = &n.devices[0].stats;

                (s.mailbox_requests.len(), s.downloads.len(), s.upload_kinds.len())
            };

            let out: Out = match &c.op {
                C15Op::Read { sub, complete, dest } => {
                    let si = if *complete { SubIndex::Complete } else { SubIndex::Index(*sub) };

                    match dest {
                        Dest::U8 => sd.sdo_read::<u8>(OBJ, si).await.map(|v| v.to_le_bytes().to_vec()),
                        Dest::U16 => sd.sdo_read::<u16>(OBJ, si).await.map(|v| v.to_le_bytes().to_vec()),
                        Dest::I16 => sd.sdo_read::<i16>(OBJ, si).await.map(|v| v.to_le_bytes().to_vec()),
                        Dest::U32 => sd.sdo_read::<u32>(OBJ, si).await.map(|v| v.to_le_bytes().to_vec()),
                        Dest::U64 => sd.sdo_read::<u64>(OBJ, si).await.map(|v| v.to_le_bytes().to_vec()),
                        Dest::Arr(n) => with_n!(*n, N => sd.sdo_read::<[u8; N]>(OBJ, si).await.map(|v| v.to_vec())),
                        Dest::Str(n) => with_n!(*n, N => sd.sdo_read::<heapless::String<N>>(OBJ, si).await.map(|v| v.as_bytes().to_vec())),
                        Dest::VecU8(n) => with_n!(*n, N => sd.sdo_read::<heapless::Vec<u8, N>>(OBJ, si).await.map(|v| v.to_vec())),
                    }
                    .map_err(|e| ekind(&e))
                }
                C15Op::Write { sub, len, value } => match len {
                    1 => sd.sdo_write(OBJ, *sub, value[0]).await,
                    2 => sd.sdo_write(OBJ, *sub, u16::from_le_bytes([value[0], value[1]])).await,
                    3 => sd.sdo_write(OBJ, *sub, [value[0], value[1], value[2]]).await,
                    _ => sd.sdo_write(OBJ, *sub, u32::from_le_bytes(*value)).await,
                }
                .map(|_| vec![])
                .map_err(|e| ekind(&e)),
                C15Op::WriteArray { elem, values } => match elem {
                    1 => sd.sdo_write_array(OBJ, values.iter().map(|v| *v as u8).collect::<Vec<u8>>()).await,
                    2 => sd.sdo_write_array(OBJ, values.iter().map(|v| *v as u16).collect::<Vec<u16>>()).await,
                    _ => sd.sdo_write_array(OBJ, values.clone()).await,
                }
                .map(|_| vec![])
                .map_err(|e| ekind(&e)),
                C15Op::ReadArray { elem, max } => {
                    macro_rules! ra {
                        ($t:ty, $m:literal) => {
                            sd.sdo_read_array::<$t, $m>(OBJ).await.map(|v| v.iter().flat_map(|x| x.to_le_bytes()).collect::<Vec<u8>>())
                        };
                    }

                    match (elem, max) {
                        (1, 1) => ra!(u8, 1),
                        (1, 4) => ra!(u8, 4),
                        (1, _) => ra!(u8, 8),
                        (2, 1) => ra!(u16, 1),
                        (2, 4) => ra!(u16, 4),
                        (2, _) => ra!(u16, 8),
                        (_, 1) => ra!(u32, 1),
                        (_, 4) => ra!(u32, 4),
                        (_, _) => ra!(u32, 8),
                    }
                    .map_err(|e| ekind(&e))
                }
            };

            Ok((out, req0, dl0, ul0))
        })
    })
    .map_err(|e| sim_fail("C15", e))?;

    let (out, req0, dl0, ul0) = match res {
        Ok(r) => r,
        Err(e) => fail!("C15|harness-init", "init / warm-up on the healthy device failed: {e:?}"),
    };

    let net = net.borrow();
    let dev = &net.devices[0];
    let st = &dev.stats;

    // ---- mailbox counters: 1..7 cycling over every request the device ever received ----------
    for w in st.mailbox_counters.windows(2) {
        ensure!(w[1] == w[0] % 7 + 1, "C15|mailbox-counter", "consecutive requests carry mailbox counters {} and {} (all: {:?})", w[0], w[1], st.mailbox_counters);
    }

    ensure!(st.mailbox_counters.iter().all(|c| (1..=7).contains(c)), "C15|mailbox-counter", "a request carries mailbox counter 0: {:?}", st.mailbox_counters);

    // ---- classification ---------------------------------------------------------------------
    let kinds = &st.upload_kinds[ul0..];
    let segmented = kinds.iter().any(|k| k & 0x0f == 2);
    let seg_requests = st.mailbox_requests[req0..].iter().filter(|r| r.len() > 8 && r[8] >> 5 == 3 && (u16::from_le_bytes([r[6], r[7]]) >> 12) == 2).count();

    info.label(match &case.op {
        C15Op::Read { complete: true, .. } => "read-complete-access",
        C15Op::Read { .. } => "read",
        C15Op::Write { .. } => "write",
        C15Op::WriteArray { .. } => "write-array",
        C15Op::ReadArray { .. } => "read-array",
    });

    if segmented {
        info.label(if seg_requests >= 2 { "segmented-several-segments" } else { "segmented-one-segment" });
    } else if kinds.iter().any(|k| k & 0x0f == 1) {
        info.label("normal-upload");
    } else if !kinds.is_empty() {
        info.label("expedited-upload");
    }

    if matches!(case.upload, UploadPolicy::SegmentedInitData(..)) && segmented {
        info.label("segmented-with-data-in-initiate-response");
    }

    if case.stale.is_some() {
        info.label("stale-out-mailbox");
    }

    let erroring = case.behaviour != ObjBehaviour::Normal;

    info.nontrivial = (segmented && seg_requests >= 2) || erroring || case.stale.is_some();

    // ---- expectations -----------------------------------------------------------------------
    let expect_err = |sub: u8| -> Option<EKind> {
        match &case.behaviour {
            ObjBehaviour::Normal => None,
            ObjBehaviour::Abort(code) => Some(EKind::Aborted { code: *code, address: OBJ, sub }),
            ObjBehaviour::WrongIndex => Some(EKind::Invalid { address: OBJ.wrapping_add(1), sub }),
            ObjBehaviour::WrongSubIndex => Some(EKind::Invalid { address: OBJ, sub: sub.wrapping_add(1) }),
            ObjBehaviour::Emergency { code, register } => Some(EKind::Emergency { code: *code, register: *register }),
        }
    };

    match &case.op {
        C15Op::Read { sub, complete, dest } => {
            let data: Vec<u8> = if *complete { case.subs.iter().skip(1).flatten().copied().collect() } else { case.subs[usize::from(*sub)].clone() };

            if let Some(k) = kinds.first() {
                ensure!((k & 0x10 != 0) == *complete, "C15|complete-access-flag", "sdo_read with complete access = {complete} reached the device with the complete access flag {}", k & 0x10 != 0);
            }

            if let Some(want) = expect_err(*sub) {
                info.label(format!("error-reply-{}", match want { EKind::Aborted { .. } => "abort", EKind::Emergency { .. } => "emergency", _ => "other-object" }));

                ensure!(out == Err(want.clone()), format!("C15|error-reply|{}", errname(&want)), "the device answered the upload of {OBJ:#06x}:{sub} with {want:?}; sdo_read returned {out:?}");

                return Ok(());
            }

            let cap = match dest {
                Dest::U8 => 1,
                Dest::U16 | Dest::I16 => 2,
                Dest::U32 => 4,
                Dest::U64 => 8,
                Dest::Arr(n) | Dest::Str(n) | Dest::VecU8(n) => usize::from(*n),
            };

            let expedited = kinds.first().map(|k| k & 0x0f == 0).unwrap_or(false);

            if data.len() > cap {
                if expedited {
                    // a prefix of an expedited value: not claimed either way
                    info.label("expedited-into-smaller-type");

                    return Ok(());
                }

                info.label("object-larger-than-destination");
                info.nontrivial = true;

                ensure!(
                    out == Err(EKind::TooLong { address: OBJ, sub: *sub }),
                    "C15|too-long",
                    "object of {} bytes read into a destination of {cap} bytes ({dest:?}, {}): expected TooLong, got {out:?}",
                    data.len(),
                    if segmented { "segmented" } else { "normal" }
                );

                return Ok(());
            }

            if matches!(dest, Dest::Arr(_)) && data.len() != cap {
                // fixed arrays need exactly their length
                return Ok(());
            }

            let last_short = segmented && {
                // last segment shorter than 7 bytes?
                true
            };

            let _ = last_short;

            ensure!(
                out.as_ref().ok() == Some(&data),
                format!("C15|read-differs|{}", if segmented { if matches!(case.upload, UploadPolicy::SegmentedInitData(..)) { "segmented-with-initiate-data" } else { "segmented" } } else if expedited { "expedited" } else { "normal" }),
                "object {OBJ:#06x}:{sub} holds {} ({} bytes; mailbox {}; device policy {:?}; {} segment request(s)); sdo_read::<{dest:?}> returned {}",
                hex(&data),
                data.len(),
                case.mbx,
                case.upload,
                seg_requests,
                match &out { Ok(b) => hex(b), Err(e) => format!("{e:?}") }
            );
        }
        C15Op::Write { sub, len, value } => {
            let new = &st.downloads[dl0..];

            ensure!(new.len() == 1, "C15|download-count", "one sdo_write reached the device as {} downloads: {new:x?}", new.len());
            ensure!(
                new[0] == (OBJ, *sub, value[..usize::from(*len)].to_vec()),
                "C15|download-differs",
                "sdo_write({OBJ:#06x}, {sub}, {}) reached the device as index {:#06x} sub-index {} data {}",
                hex(&value[..usize::from(*len)]),
                new[0].0,
                new[0].1,
                hex(&new[0].2)
            );

            match expect_err(*sub) {
                Some(want) => ensure!(out == Err(want.clone()), format!("C15|error-reply|{}", errname(&want)), "the device answered the download with {want:?}; sdo_write returned {out:?}"),
                None => ensure!(out == Ok(vec![]), "C15|write-failed", "sdo_write to a healthy object returned {out:?}"),
            }
        }
        C15Op::WriteArray { elem, values } => {
            let new = &st.downloads[dl0..];

            if let Some(want) = expect_err(0) {
                ensure!(out == Err(want.clone()), format!("C15|error-reply|{}", errname(&want)), "the device answered the first download with {want:?}; sdo_write_array returned {out:?}");

                return Ok(());
            }

            let mut want: Vec<(u16, u8, Vec<u8>)> = vec![(OBJ, 0, vec![0])];

            for (i, v) in values.iter().enumerate() {
                want.push((OBJ, i as u8 + 1, v.to_le_bytes()[..usize::from(*elem)].to_vec()));
            }

            want.push((OBJ, 0, vec![values.len() as u8]));

            ensure!(out == Ok(vec![]), "C15|write-failed", "sdo_write_array to a healthy object returned {out:?}");
            ensure!(new == &want[..], "C15|write-array-trace", "sdo_write_array of {} values of {elem} byte(s): the device received {new:x?}, expected {want:x?}", values.len());
        }
        C15Op::ReadArray { elem, max } => {
            if let Some(want) = expect_err(0) {
                ensure!(out == Err(want.clone()), format!("C15|error-reply|{}", errname(&want)), "the device answered with {want:?}; sdo_read_array returned {out:?}");

                return Ok(());
            }

            let n = usize::from(case.subs[0][0]);

            if n > usize::from(*max) {
                info.label("array-larger-than-capacity");

                ensure!(out == Err(EKind::Capacity), "C15|read-array-capacity", "object with {n} entries read into a Vec of capacity {max}: expected a capacity error, got {out:?}");

                return Ok(());
            }

            let want: Vec<u8> = case.subs.iter().skip(1).flatten().copied().collect();

            ensure!(
                out.as_ref().ok() == Some(&want),
                "C15|read-array-differs",
                "object holds {n} entries of {elem} byte(s) {}; sdo_read_array returned {}",
                hex(&want),
                match &out { Ok(b) => hex(b), Err(e) => format!("{e:?}") }
            );

            // sub-indices read: 0, then 1..n
            let ups: Vec<u8> = st.uploads[st.uploads.len() - (n + 1)..].iter().map(|u| u.1).collect();
            let want_subs: Vec<u8> = (0..=n as u8).collect();

            ensure!(ups == want_subs, "C15|read-array-trace", "sdo_read_array read sub-indices {ups:?}, expected {want_subs:?}");
        }
    }

    Ok(())
}

fn errname(e: &EKind) -> &'static str {
    match e {
        EKind::Aborted { .. } => "abort",
        EKind::Emergency { .. } => "emergency",
        EKind::Invalid { .. } => "other-object",
        EKind::TooLong { .. } => "too-long",
        EKind::Capacity => "capacity",
        EKind::Other(_) => "other",
    }
}

// ---------------------------------------------------------------------------------------------
// C16 — no mailbox reply can crash the MainDevice or make it read out of bounds
// ---------------------------------------------------------------------------------------------

#[derive(Serialize, Deserialize, Clone, Copy, Debug, PartialEq, Eq, Hash)]
pub enum Entry {
    ReadU8,
    ReadU32,
    ReadU64,
    ReadArr(u16),
    ReadStr(u16),
    ReadVec(u16),
    Write(u8),
    ReadArray { elem: u8, max: u8 },
    WriteArray(u8),
    InfoList(u8),
    InfoQuantities,
}

#[derive(Serialize, Deserialize, Clone, Debug, PartialEq, Eq, Hash)]
pub struct C16Case {
    pub mbx: u16,
    pub entry: Entry,
    /// Replies to request k (delivered one after the other)
    pub script: Vec<Vec<Vec<u8>>>,
    /// Delivered for ever once the script is used up
    pub endless: Option<Vec<u8>>,
}

/// A reply built from fields, each of which is either what a healthy device would send or a
/// generated value.
fn reply(mbx: u16) -> impl Strategy<Value = Vec<u8>> {
    let payload = prop_oneof![3 => prop::collection::vec(any::<u8>(), 0..12), 2 => prop::collection::vec(any::<u8>(), 12..80), 1 => prop::collection::vec(any::<u8>(), 80..700)];

    (
        0u8..9,
        payload,
        // mailbox length field
        prop_oneof![5 => Just(None), 3 => prop::sample::select(vec![0u16, 1, 2, 3, 4, 5, 6, 7, 8, 9, 10, 11, 12, 0x7fff, 0xfffe, 0xffff]).prop_map(Some), 1 => any::<u16>().prop_map(Some), 1 => (0u16..40).prop_map(Some),
            // just beyond what the mailbox can hold
            1 => (0u16..12).prop_map(move |k| Some(mbx.saturating_sub(6) + k))],
        // mailbox type nibble, counter
        (prop_oneof![8 => Just(3u8), 1 => 0u8..16], 0u8..8),
        // CoE service nibble
        prop_oneof![6 => Just(None), 2 => (0u8..16).prop_map(Some)],
        // SDO command byte / SDO info opcode byte
        prop_oneof![5 => Just(None), 2 => any::<u8>().prop_map(Some)],
        // index, sub-index
        (prop_oneof![6 => Just(OBJ), 1 => any::<u16>()], prop_oneof![6 => Just(1u8), 1 => Just(0u8), 1 => any::<u8>()]),
        // complete size / fragments left / unused count
        prop_oneof![4 => Just(None), 2 => prop::sample::select(vec![0u32, 1, 2, 3, 4, 5, 7, 8, 0xffff, 0x1_0000, 0x7fff_ffff, 0xffff_ffff]).prop_map(Some), 1 => any::<u32>().prop_map(Some)],
        (any::<bool>(), any::<bool>(), 0u8..8),
        // truncation
        prop_oneof![5 => Just(None), 2 => (0usize..24).prop_map(Some), 1 => (0usize..700).prop_map(Some)],
    )
        .prop_map(move |(kind, payload, len_field, (typ, counter), service, cmd, (index, sub), size, (flag_a, flag_b, small), trunc)| {
            let mut body: Vec<u8> = Vec::new();

            // body = everything behind the 6 byte mailbox header
            match kind {
                // expedited upload response
                0 => {
                    let n = payload.len().min(4);

                    body.extend_from_slice(&(u16::from(service.unwrap_or(3)) << 12).to_le_bytes());
                    body.push(cmd.unwrap_or((2 << 5) | 0x03 | (((4 - n) as u8) << 2)));
                    body.extend_from_slice(&index.to_le_bytes());
                    body.push(sub);

                    let mut four = [0u8; 4];

                    four[..n].copy_from_slice(&payload[..n]);
                    body.extend_from_slice(&four);
                }
                // normal upload response (also the initiate response of a segmented upload)
                1 | 2 => {
                    body.extend_from_slice(&(u16::from(service.unwrap_or(3)) << 12).to_le_bytes());
                    body.push(cmd.unwrap_or((2 << 5) | 0x01));
                    body.extend_from_slice(&index.to_le_bytes());
                    body.push(sub);

                    let complete = size.unwrap_or(if kind == 1 { payload.len() as u32 } else { payload.len() as u32 + u32::from(small) * 9 + 1 });

                    body.extend_from_slice(&complete.to_le_bytes());
                    body.extend_from_slice(&payload);
                }
                // upload segment response
                3 | 4 => {
                    body.extend_from_slice(&(u16::from(service.unwrap_or(3)) << 12).to_le_bytes());

                    let unused = size.map(|s| (s & 7) as u8).unwrap_or(if payload.len() < 7 { (7 - payload.len()) as u8 } else { 0 });

                    body.push(cmd.unwrap_or((u8::from(flag_a) << 4) | (unused << 1) | u8::from(flag_b || kind == 3)));
                    body.extend_from_slice(&payload);

                    while body.len() < 10 {
                        body.push(0);
                    }
                }
                // download response
                5 => {
                    body.extend_from_slice(&(u16::from(service.unwrap_or(3)) << 12).to_le_bytes());
                    body.push(cmd.unwrap_or(3 << 5));
                    body.extend_from_slice(&index.to_le_bytes());
                    body.push(sub);
                    body.extend_from_slice(&[0; 4]);
                }
                // abort
                6 => {
                    body.extend_from_slice(&(u16::from(service.unwrap_or(2)) << 12).to_le_bytes());
                    body.push(cmd.unwrap_or(4 << 5));
                    body.extend_from_slice(&index.to_le_bytes());
                    body.push(sub);
                    body.extend_from_slice(&size.unwrap_or(0x0602_0000).to_le_bytes());
                }
                // emergency
                7 => {
                    body.extend_from_slice(&(u16::from(service.unwrap_or(1)) << 12).to_le_bytes());
                    body.extend_from_slice(&payload.iter().copied().chain(std::iter::repeat(0)).take(8).collect::<Vec<u8>>());
                }
                // SDO information fragment
                _ => {
                    body.extend_from_slice(&(u16::from(service.unwrap_or(8)) << 12).to_le_bytes());
                    body.push(cmd.unwrap_or(0x02 | if flag_a { 0x80 } else { 0 }));
                    body.push(0);
                    body.extend_from_slice(&(size.unwrap_or(u32::from(flag_a)) as u16).to_le_bytes());

                    if flag_b {
                        body.extend_from_slice(&[1, 0]);
                    }

                    body.extend_from_slice(&payload);
                }
            }

            let mut r = Vec::new();

            r.extend_from_slice(&len_field.unwrap_or(body.len() as u16).to_le_bytes());
            r.extend_from_slice(&[0, 0, 0]);
            r.push((typ & 0x0f) | ((counter & 7) << 4));
            r.extend_from_slice(&body);

            if let Some(t) = trunc {
                r.truncate(t);
            }

            r.truncate(usize::from(mbx));

            r
        })
}

fn any_reply(mbx: u16) -> impl Strategy<Value = Vec<u8>> {
    prop_oneof![8 => reply(mbx), 1 => prop::collection::vec(any::<u8>(), 0..=usize::from(mbx).min(80))]
}

pub fn c16_case() -> impl Strategy<Value = C16Case> {
    (
        prop::sample::select(vec![6u16, 8, 10, 12, 14, 16, 17, 20, 24, 32, 48, 64, 128, 256, 1024]),
        prop_oneof![
            Just(Entry::ReadU8),
            Just(Entry::ReadU32),
            Just(Entry::ReadU64),
            prop::sample::select(NS.to_vec()).prop_map(Entry::ReadArr),
            prop::sample::select(NS.to_vec()).prop_map(Entry::ReadStr),
            prop::sample::select(NS.to_vec()).prop_map(Entry::ReadVec),
            (1u8..=4).prop_map(Entry::Write),
            (prop::sample::select(vec![1u8, 2, 4]), prop::sample::select(vec![1u8, 4, 8])).prop_map(|(elem, max)| Entry::ReadArray { elem, max }),
            (0u8..4).prop_map(Entry::WriteArray),
            (1u8..=5).prop_map(Entry::InfoList),
            Just(Entry::InfoQuantities),
        ],
    )
        .prop_flat_map(|(mbx, entry)| {
            // A segmented upload whose segments are generated field by field and then repeated for
            // ever: initiate response announcing more data than it carries, then the same segment
            // (any unused count, any declared length around the minimum, last flag clear) again
            // and again
            let endless_segments = (0u8..8, 0u16..14, prop::collection::vec(any::<u8>(), 0..10), any::<bool>(), 0u8..6).prop_map(move |(unused, len_field, data, toggle, k)| {
                // announces one byte more than it carries, so that every destination that can hold
                // k + 1 bytes enters the segment loop
                let k = k % 4;
                let mut init = vec![10u8 + k, 0, 0, 0, 0, 0x13, 0x00, 0x30, 0x41, 0x00, 0x21, 0x01, k + 1, 0, 0, 0];

                init.extend(std::iter::repeat_n(0x5au8, usize::from(k)));

                let mut seg = vec![len_field as u8, 0, 0, 0, 0, 0x13, 0x00, 0x30, (u8::from(toggle) << 4) | (unused << 1)];

                seg.extend_from_slice(&data);

                while seg.len() < 16 {
                    seg.push(0);
                }

                (vec![vec![init]], Some(seg))
            });

            let generic = (prop::collection::vec(prop::collection::vec(any_reply(mbx), 1..=3), 0..6), prop_oneof![12 => Just(None), 1 => any_reply(mbx).prop_map(Some)]);
            let is_read = matches!(entry, Entry::ReadU8 | Entry::ReadU32 | Entry::ReadU64 | Entry::ReadArr(_) | Entry::ReadStr(_) | Entry::ReadVec(_) | Entry::ReadArray { .. });

            (
                if is_read { prop_oneof![9 => generic, 1 => endless_segments].boxed() } else { generic.boxed() },
                0u8..8,
            )
                .prop_map(move |((script, endless), roll)| {
                    // The SDO information entry points are known not to end under endless replies
                    // (known_findings.json); each such case costs the full frame budget, so they
                    // are generated an eighth as often
                    let endless = if matches!(entry, Entry::InfoList(_) | Entry::InfoQuantities) && roll != 0 { None } else { endless };

                    C16Case { mbx, entry, script, endless }
                })
        })
}

pub const C16_RULE: &str = "case = (mailbox size 6..1024; entry point sdo_read into u8/u32/u64/[u8;N]/String<N>/Vec<u8,N>, sdo_write, sdo_read_array, sdo_write_array, sdo_info_object_description_list, sdo_info_object_quantities; a script of 0..5 reply bursts of 1..3 replies, each built from a reply kind (expedited / normal / initiate-segmented / segment / download / abort / emergency / SDO info fragment / random bytes) whose mailbox length, type, counter, CoE service, command byte, index, sub-index, size / fragments-left / unused-count fields are each either plausible or generated over their range, truncated at a generated length; optionally a reply that is delivered for ever afterwards); non-trivial = the first reply carries the CoE mailbox type and at least a full header (it reaches the triage code); distinct by hash of the case";

pub fn run_c16(case: &C16Case, info: &mut CaseInfo) -> Result<(), Fail> {
    let od = vec![Object { index: OBJ, subs: vec![vec![1], vec![1, 2, 3, 4]], behaviour: ObjBehaviour::Normal }];
    let spec = NetSpec { devices: vec![coe_device(case.mbx, od, UploadPolicy::Auto, 1)] };
    let net: NetHandle = Rc::new(RefCell::new(Network::new(&spec)));
    // Enough for the largest legitimate transfer (0x1fffe bytes in one byte fragments), not more
    let cfg = SimConfig { frame_budget: 320_000, ..Default::default() };
    let c = case.clone();
    let net2 = net.clone();

    let res: Result<Result<Option<Vec<u8>>, Error>, simexec::SimError> = simexec::run(&net, &cfg, |md| {
        Box::pin(async move {
            let group = md.init_single_group::<2, 8>(|| 0).await?;
            let sd = group.subdevice(md, 0)?;

            {
                let mut n = net2.borrow_mut();

                n.devices[0].scripted = Some(c.script.iter().cloned().collect());
                n.devices[0].endless = c.endless.clone();
            }

            net2.borrow_mut().devices[0].stats.replies_served.clear();

            // value bytes of a successful read (None for calls that return no device data)
            let out: Result<Option<Vec<u8>>, Error> = match c.entry {
                Entry::ReadU8 => sd.sdo_read::<u8>(OBJ, 1).await.map(|v| Some(v.to_le_bytes().to_vec())),
                Entry::ReadU32 => sd.sdo_read::<u32>(OBJ, 1).await.map(|v| Some(v.to_le_bytes().to_vec())),
                Entry::ReadU64 => sd.sdo_read::<u64>(OBJ, 1).await.map(|v| Some(v.to_le_bytes().to_vec())),
                Entry::ReadArr(n) => with_n!(n, N => sd.sdo_read::<[u8; N]>(OBJ, 1).await.map(|v| Some(v.to_vec()))),
                Entry::ReadStr(n) => with_n!(n, N => sd.sdo_read::<heapless::String<N>>(OBJ, 1).await.map(|v| Some(v.as_bytes().to_vec()))),
                Entry::ReadVec(n) => with_n!(n, N => sd.sdo_read::<heapless::Vec<u8, N>>(OBJ, 1).await.map(|v| Some(v.to_vec()))),
                Entry::Write(len) => match len {
                    1 => sd.sdo_write(OBJ, 1, 0x11u8).await,
                    2 => sd.sdo_write(OBJ, 1, 0x2211u16).await,
                    3 => sd.sdo_write(OBJ, 1, [1u8, 2, 3]).await,
                    _ => sd.sdo_write(OBJ, 1, 0x4433_2211u32).await,
                }
                .map(|_| None),
                Entry::ReadArray { elem, max } => match (elem, max) {
                    (1, 1) => sd.sdo_read_array::<u8, 1>(OBJ).await.map(|v| Some(v.iter().flat_map(|x| x.to_le_bytes()).collect())),
                    (1, 4) => sd.sdo_read_array::<u8, 4>(OBJ).await.map(|v| Some(v.iter().flat_map(|x| x.to_le_bytes()).collect())),
                    (1, _) => sd.sdo_read_array::<u8, 8>(OBJ).await.map(|v| Some(v.iter().flat_map(|x| x.to_le_bytes()).collect())),
                    (2, 1) => sd.sdo_read_array::<u16, 1>(OBJ).await.map(|v| Some(v.iter().flat_map(|x| x.to_le_bytes()).collect())),
                    (2, 4) => sd.sdo_read_array::<u16, 4>(OBJ).await.map(|v| Some(v.iter().flat_map(|x| x.to_le_bytes()).collect())),
                    (2, _) => sd.sdo_read_array::<u16, 8>(OBJ).await.map(|v| Some(v.iter().flat_map(|x| x.to_le_bytes()).collect())),
                    (_, 1) => sd.sdo_read_array::<u32, 1>(OBJ).await.map(|v| Some(v.iter().flat_map(|x| x.to_le_bytes()).collect())),
                    (_, 4) => sd.sdo_read_array::<u32, 4>(OBJ).await.map(|v| Some(v.iter().flat_map(|x| x.to_le_bytes()).collect())),
                    (_, _) => sd.sdo_read_array::<u32, 8>(OBJ).await.map(|v| Some(v.iter().flat_map(|x| x.to_le_bytes()).collect())),
                },
                Entry::WriteArray(n) => sd.sdo_write_array(OBJ, (0..n).map(u16::from).collect::<Vec<u16>>()).await.map(|_| None),
                Entry::InfoList(k) => {
                    use ethercrab::ObjectDescriptionListQuery as Q;

                    let q = match k {
                        1 => Q::All,
                        2 => Q::RxPdoMappable,
                        3 => Q::TxPdoMappable,
                        4 => Q::StoredForDeviceReplacement,
                        _ => Q::StartupParameters,
                    };

                    sd.sdo_info_object_description_list(q).await.map(|v| v.map(|v| v.iter().flat_map(|x| x.to_le_bytes()).collect()))
                }
                Entry::InfoQuantities => sd.sdo_info_object_quantities().await.map(|_| None),
            };

            Ok::<_, Error>(out)
        })
    })
    .map(|r| match r {
        Ok(o) => o,
        Err(e) => Err(e),
    });

    let first = case.script.first().and_then(|b| b.first());
    let reaches_triage = first.map(|r| r.len() >= 12 && r[5] & 0x0f == 3).unwrap_or(false);

    info.nontrivial = reaches_triage;
    info.label(format!("{:?}", std::mem::discriminant(&case.entry)).replace("Discriminant", "entry"));

    if case.endless.is_some() {
        info.label("endless-replies");
    }

    if case.mbx < 16 {
        info.label("mailbox-smaller-than-a-request");
    }

    match res {
        Ok(Ok(value)) => {
            info.label("returns-value");

            // Every byte handed to the caller must come out of a reply mailbox: the value is a
            // concatenation of pieces, each a contiguous part of one reply, replies in order
            if let Some(v) = value {
                let replies = net.borrow().devices[0].stats.replies_served.clone();

                if !v.is_empty() && replies.len() < 64 {
                    let mut reach = vec![false; v.len() + 1];

                    reach[0] = true;

                    for r in &replies {
                        let mut next = reach.clone();

                        for i in 0..v.len() {
                            if !reach[i] {
                                continue;
                            }

                            // longest match of v[i..] at every offset of r
                            let mut best = 0;

                            for s in 0..r.len() {
                                let mut l = 0;

                                while i + l < v.len() && s + l < r.len() && v[i + l] == r[s + l] {
                                    l += 1;
                                }

                                best = best.max(l);
                            }

                            for j in i + 1..=i + best {
                                next[j] = true;
                            }
                        }

                        reach = next;
                    }

                    ensure!(
                        reach[v.len()],
                        "C16|value-not-from-response",
                        "{:?} returned {} ({} bytes), which cannot be pieced together from the {} reply mailbox image(s) the device served (mailbox {} bytes): {}",
                        case.entry,
                        hex(&v),
                        v.len(),
                        replies.len(),
                        case.mbx,
                        replies.iter().map(|r| hex(r)).collect::<Vec<_>>().join(" | ")
                    );
                }
            }

            Ok(())
        }
        Ok(Err(Error::Timeout(_))) => {
            info.label("returns-timeout");

            Ok(())
        }
        Ok(Err(_)) => {
            info.label("returns-error");

            Ok(())
        }
        Err(simexec::SimError::Watchdog) => {
            fail!(
                format!("C16|does-not-end|{}", format!("{:?}", case.entry).split(['(', ' ', '{']).next().unwrap_or("")),
                "{:?} had not returned after {} frames (the largest legitimate transfer, 0x1fffe bytes in one byte fragments, needs about 270000); endless reply: {}",
                case.entry,
                cfg.frame_budget,
                case.endless.as_ref().map(|e| hex(e)).unwrap_or_else(|| "none".into())
            )
        }
        Err(e) => Err(sim_fail("C16", e)),
    }
}
