//! Shared proptest strategies.

use crate::wire::Cmd;
use proptest::prelude::*;

/// Interesting 16 bit values: boundaries plus uniform.
pub fn u16_edgy() -> impl Strategy<Value = u16> + Clone {
    prop_oneof![
        3 => any::<u16>(),
        1 => prop::sample::select(vec![0u16, 1, 2, 0x00ff, 0x0100, 0x0fff, 0x1000, 0x1001, 0x7fff, 0x8000, 0xfffe, 0xffff]),
    ]
}

pub fn u32_edgy() -> impl Strategy<Value = u32> + Clone {
    prop_oneof![
        3 => any::<u32>(),
        1 => prop::sample::select(vec![0u32, 1, 0xffff, 0x1_0000, 0x7fff_ffff, 0x8000_0000, 0xffff_fffe, 0xffff_ffff]),
    ]
}

/// Any of the 11 command kinds, through constructors and raw enum construction.
pub fn cmd() -> impl Strategy<Value = Cmd> + Clone {
    prop_oneof![
        Just(Cmd::Nop),
        (u16_edgy(), u16_edgy()).prop_map(|(pos, reg)| Cmd::Aprd { pos, reg }),
        (u16_edgy(), u16_edgy()).prop_map(|(adp, reg)| Cmd::AprdRaw { adp, reg }),
        (u16_edgy(), u16_edgy()).prop_map(|(addr, reg)| Cmd::Fprd { addr, reg }),
        u16_edgy().prop_map(|reg| Cmd::Brd { reg }),
        (u16_edgy(), u16_edgy()).prop_map(|(adp, reg)| Cmd::BrdRaw { adp, reg }),
        u32_edgy().prop_map(|addr| Cmd::Lrd { addr }),
        (u16_edgy(), u16_edgy()).prop_map(|(addr, reg)| Cmd::Frmw { addr, reg }),
        u16_edgy().prop_map(|reg| Cmd::Bwr { reg }),
        (u16_edgy(), u16_edgy()).prop_map(|(adp, reg)| Cmd::BwrRaw { adp, reg }),
        (u16_edgy(), u16_edgy()).prop_map(|(pos, reg)| Cmd::Apwr { pos, reg }),
        (u16_edgy(), u16_edgy()).prop_map(|(adp, reg)| Cmd::ApwrRaw { adp, reg }),
        (u16_edgy(), u16_edgy()).prop_map(|(addr, reg)| Cmd::Fpwr { addr, reg }),
        u32_edgy().prop_map(|addr| Cmd::Lwr { addr }),
        u32_edgy().prop_map(|addr| Cmd::Lrw { addr }),
    ]
}

/// Frame sizes: everything below 128, boundary-biased above.
pub fn frame_size() -> impl Strategy<Value = u16> + Clone {
    prop_oneof![
        4 => 28u16..128,
        2 => prop::sample::select(vec![
            128u16, 129, 255, 256, 257, 511, 512, 513, 1023, 1024, 1025, 1100, 1499, 1500, 1501,
            1512, 1513, 1514
        ]),
        2 => 128u16..=1514,
    ]
}
