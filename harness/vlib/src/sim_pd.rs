//! Process data checks on the simulated segment: C08 (mapping / marking experiment) and C07 (one
//! cycle on the wire).

use crate::{
    core::*,
    ensure, fail,
    sim_checks::sim_fail,
    simexec::{self, NetHandle, SimConfig},
    simgen::{self, DevKnobs},
    simnet::{NetSpec, Network},
    util::{bytes_from_seed, hex},
    wire,
};
use ethercrab::{MainDevice, SubDeviceGroup, error::Error, subdevice_group::HasPdi};
use proptest::prelude::*;
use serde::{Deserialize, Serialize};
use std::{cell::RefCell, rc::Rc};

// ---------------------------------------------------------------------------------------------
// C08
// ---------------------------------------------------------------------------------------------

#[derive(Serialize, Deserialize, Clone, Debug, PartialEq, Eq, Hash)]
pub struct C08Case {
    pub devices: Vec<DevKnobs>,
    pub ngroups: u8,
    pub assign: Vec<u8>,
    /// MAX_PDI of every group: 8, 32, 128, 1024, 8192 or 16384
    pub max_pdi: u16,
    pub to_op: bool,
    pub seed: u64,
    /// Configure DC sync on the PRE-OP group first (no device asks for sync pulses), then go on
    #[serde(default)]
    pub dc_first: bool,
}

pub fn c08_case() -> impl Strategy<Value = C08Case> {
    (prop_oneof![3 => 1usize..=3, 3 => 1usize..=8, 1 => 9usize..=16], 1u8..=3).prop_flat_map(|(n, ngroups)| {
        (
            prop::collection::vec(
                (
                    simgen::knobs(simgen::KnobRanges { max_sms: 3, max_pdos: 3, max_entries: 4, allow_dc: false, strict_pct: 25 }),
                    // oversampling: which PDOs (by position) and factor
                    prop::collection::vec((any::<bool>(), 0usize..3, 0usize..3, 2u16..=8), 0..=2),
                    prop::bool::weighted(0.3),
                    prop::bool::weighted(0.15),
                ),
                n,
            ),
            prop_oneof![1 => Just(vec![0u8; n]), 2 => prop::collection::vec(0u8..ngroups, n)],
            prop::sample::select(vec![8u16, 32, 128, 1024, 1024, 8192, 16384]),
            any::<bool>(),
            any::<u64>(),
            prop::bool::weighted(0.12),
        )
            .prop_map(move |(devs, assign, max_pdi, to_op, seed, dc_first)| {
                let devices: Vec<DevKnobs> = devs
                    .into_iter()
                    .map(|(mut k, ovs, use_ovs, noncontig)| {
                        k.sii_busy_polls = 0;
                        k.noncontig = noncontig;

                        if use_ovs {
                            for (out, sm, pdo, f) in ovs {
                                let set = if out { &k.out_sms } else { &k.in_sms };

                                if let Some(pdos) = set.get(sm) {
                                    if pdo < pdos.len() {
                                        let idx = if out { 0x1600 } else { 0x1a00 } + (sm * 16 + pdo) as u16;

                                        if !k.oversampling.iter().any(|(p, _)| *p == idx) {
                                            k.oversampling.push((idx, f));
                                        }
                                    }
                                }
                            }
                        }

                        k
                    })
                    .collect();

                let mut devices = devices;

                if dc_first {
                    // a reference clock must exist
                    devices[0].dc = crate::simnet::DcKind::Bits64;
                }

                C08Case { devices, ngroups, assign, max_pdi, to_op, seed, dc_first }
            })
    })
}

pub const C08_RULE: &str = "case = (1..16 generated devices, each with 0..3 sync managers per direction of 1..3 PDOs of 1..4 entries of 1..64 bits, with CoE (PDO assignment and mapping read over SDO) or without (EEPROM PDO categories), with/without FMMU_EX, oversampling factors 2..8 on selected PDOs, sync managers of a direction physically adjacent or each in its own buffer area, lenient or strict devices (strict: only the FMMUs / sync managers the SII declares exist and SAFE-OP is refused unless the sync managers are programmed as the device expects); 1..3 groups with MAX_PDI in {8,32,128,1024,8192,16384}; SAFE-OP or OP; then the marking experiment: distinct random patterns in every output window and every device's input memory, one cycle); non-trivial = >= 2 devices with bit lengths that are not byte multiples, or a device with >= 2 sync managers in one direction, or >= 2 groups used, or a group that exceeds MAX_PDI; distinct by hash of the case";

#[derive(Default)]
pub struct GP<const P: usize> {
    pub g: [SubDeviceGroup<16, P>; 3],
}

#[derive(Clone, Debug, Default)]
struct Window {
    in_ptr: usize,
    in_len: usize,
    out_ptr: usize,
    out_len: usize,
    inputs_after: Vec<u8>,
    outputs_after: Vec<u8>,
}

#[derive(Clone, Debug)]
enum GroupOut {
    /// Transition failed
    Failed { too_long: Option<(usize, usize)>, err: String },
    Ok { windows: Vec<Window>, cycle: Result<u16, String> },
}

struct PdObs {
    groups: Vec<GroupOut>,
    /// Process RAM of every device before the cycle (after preloading inputs)
    ram_before: Vec<Vec<u8>>,
    /// Frames of the cycle of each group
    frames: Vec<Vec<Vec<u8>>>,
}

const RAM0: usize = 0x1000;

fn out_pattern(seed: u64, dev: usize, len: usize) -> Vec<u8> {
    bytes_from_seed(seed ^ (0x0u64.wrapping_add(dev as u64 * 0x9e37_79b9) << 1) ^ 0x5555, len).into_iter().map(|b| b | 1).collect()
}

fn in_pattern(seed: u64, dev: usize, len: usize) -> Vec<u8> {
    bytes_from_seed(seed ^ (dev as u64 * 0x85eb_ca6b) ^ 0xaaaa_0000, len).into_iter().map(|b| b | 2).collect()
}

async fn experiment<const P: usize, S: HasPdi, DC>(
    md: &MainDevice<'_>,
    net: &NetHandle,
    case: &C08Case,
    members: &[Vec<usize>],
    groups: &[Option<SubDeviceGroup<16, P, ethercrab::DefaultLock, S, DC>>],
    outs: &mut [GroupOut],
    ram_before: &mut Vec<Vec<u8>>,
    frames: &mut Vec<Vec<Vec<u8>>>,
) {
    // windows + write output patterns
    for (gi, g) in groups.iter().enumerate() {
        let Some(g) = g else { continue };
        let mut windows = Vec::new();

        for (j, sd) in g.iter(md).enumerate() {
            let dev = members[gi][j];
            let mut w = Window::default();

            {
                let io = sd.io_raw();

                w.in_ptr = io.inputs().as_ptr() as usize;
                w.in_len = io.inputs().len();
                w.out_ptr = io.outputs().as_ptr() as usize;
                w.out_len = io.outputs().len();
            }

            {
                let mut o = sd.outputs_raw_mut();
                let pat = out_pattern(case.seed, dev, o.len());

                o.copy_from_slice(&pat);
            }

            windows.push(w);
        }

        outs[gi] = GroupOut::Ok { windows, cycle: Err("not run".into()) };
    }

    // preload input memory, snapshot
    {
        let mut n = net.borrow_mut();

        for (i, d) in n.devices.iter_mut().enumerate() {
            let ins: Vec<(usize, u16, u16, bool)> = d.expected_pd_sms().into_iter().filter(|s| !s.3).collect();
            let total: usize = ins.iter().map(|s| usize::from(s.2)).sum();
            let pat = in_pattern(case.seed, i, total);
            let mut at = 0;

            for (_, start, len, _) in ins {
                let a = usize::from(start);
                let l = usize::from(len);

                d.mem[a..a + l].copy_from_slice(&pat[at..at + l]);
                at += l;
            }
        }

        *ram_before = n.devices.iter().map(|d| d.mem[RAM0..].to_vec()).collect();
        n.log_frames = true;
        n.stats.tx_log.clear();
    }

    for (gi, g) in groups.iter().enumerate() {
        let Some(g) = g else { continue };
        let r = g.tx_rx(md).await;

        frames[gi] = std::mem::take(&mut net.borrow_mut().stats.tx_log);

        if let GroupOut::Ok { windows, cycle } = &mut outs[gi] {
            *cycle = r.map(|r| r.working_counter).map_err(|e| format!("{e:?}"));

            for (j, sd) in g.iter(md).enumerate() {
                let io = sd.io_raw();

                windows[j].inputs_after = io.inputs().to_vec();
                windows[j].outputs_after = io.outputs().to_vec();
            }
        }
    }

    net.borrow_mut().log_frames = false;
}

async fn c08_body<const P: usize>(md: &MainDevice<'_>, net: &NetHandle, case: &C08Case, members: &[Vec<usize>]) -> Result<PdObs, Error> {
    let ng = usize::from(case.ngroups);
    let assign = case.assign.clone();

    let mut groups = md
        .init::<16, GP<P>>(|| 0, GP::default(), |g, sd| Ok(&g.g[usize::from(assign[usize::from(sd.configured_address() - 0x1000)]) % ng]))
        .await?;

    // oversampling is told to the MainDevice by the application
    for (gi, g) in groups.g.iter_mut().enumerate() {
        for (j, mut sd) in g.iter_mut(md).enumerate() {
            let dev = members[gi][j];
            let o = &case.devices[dev].oversampling;

            if !o.is_empty() {
                let leaked: &'static [(u16, u16)] = Box::leak(o.clone().into_boxed_slice());

                sd.set_oversampling(leaked);
            }
        }
    }

    let [g0, g1, g2] = groups.g;
    let mut outs: Vec<GroupOut> = Vec::new();

    if case.dc_first {
        let conf = ethercrab::subdevice_group::DcConfiguration {
            start_delay: std::time::Duration::from_millis(1),
            sync0_period: std::time::Duration::from_millis(1),
            sync0_shift: std::time::Duration::ZERO,
        };

        let mut safe = Vec::new();

        for g in [g0, g1, g2] {
            let r = match g.configure_dc_sync(md, conf).await {
                Ok(g) => g.into_safe_op(md).await,
                Err(e) => Err(e),
            };

            match r {
                Ok(g) => {
                    outs.push(GroupOut::Ok { windows: vec![], cycle: Err("not run".into()) });
                    safe.push(Some(g));
                }
                Err(e) => {
                    let too_long = if let Error::PdiTooLong { max_length, desired_length } = e { Some((max_length, desired_length)) } else { None };

                    outs.push(GroupOut::Failed { too_long, err: format!("{e:?}") });
                    safe.push(None);
                }
            }
        }

        let mut ram_before = Vec::new();
        let mut frames = vec![Vec::new(); 3];

        experiment(md, net, case, members, &safe, &mut outs, &mut ram_before, &mut frames).await;

        return Ok(PdObs { groups: outs, ram_before, frames });
    }

    let mut safe = Vec::new();

    for g in [g0, g1, g2] {
        match g.into_safe_op(md).await {
            Ok(g) => {
                outs.push(GroupOut::Ok { windows: vec![], cycle: Err("not run".into()) });
                safe.push(Some(g));
            }
            Err(e) => {
                let too_long = if let Error::PdiTooLong { max_length, desired_length } = e { Some((max_length, desired_length)) } else { None };

                outs.push(GroupOut::Failed { too_long, err: format!("{e:?}") });
                safe.push(None);
            }
        }
    }

    let mut ram_before = Vec::new();
    let mut frames = vec![Vec::new(); 3];

    if case.to_op {
        let mut op = Vec::new();

        for (gi, g) in safe.into_iter().enumerate() {
            match g {
                Some(g) => match g.into_op(md).await {
                    Ok(g) => op.push(Some(g)),
                    Err(e) => {
                        outs[gi] = GroupOut::Failed { too_long: None, err: format!("into_op: {e:?}") };
                        op.push(None);
                    }
                },
                None => op.push(None),
            }
        }

        experiment(md, net, case, members, &op, &mut outs, &mut ram_before, &mut frames).await;
    } else {
        experiment(md, net, case, members, &safe, &mut outs, &mut ram_before, &mut frames).await;
    }

    Ok(PdObs { groups: outs, ram_before, frames })
}

/// The one arrangement the MainDevice is known to map wrongly (see known_findings.json): a CoE
/// device whose sync managers of one direction are not physically adjacent share one FMMU.
fn shared_fmmu_class(k: &DevKnobs, outputs: bool) -> &'static str {
    let sms = if outputs { &k.out_sms } else { &k.in_sms };

    if k.coe && k.noncontig && sms.len() >= 2 { "|coe-device-with-non-adjacent-sync-managers" } else { "" }
}

pub fn run_c08(case: &C08Case, info: &mut CaseInfo) -> Result<(), Fail> {
    let n = case.devices.len();
    let ng = usize::from(case.ngroups);
    let spec: NetSpec = simgen::build_net(&case.devices, &[], &[]);
    let net: NetHandle = Rc::new(RefCell::new(Network::new(&spec)));
    let cfg = SimConfig::default();

    let group_of = |i: usize| usize::from(case.assign[i]) % ng;
    let members: Vec<Vec<usize>> = (0..3).map(|g| (0..n).filter(|i| group_of(*i) == g).collect()).collect();

    let net2 = net.clone();
    let c = case.clone();
    let m2 = members.clone();

    let res: Result<PdObs, Error> = simexec::run(&net, &cfg, |md| {
        Box::pin(async move {
            match c.max_pdi {
                8 => c08_body::<8>(md, &net2, &c, &m2).await,
                32 => c08_body::<32>(md, &net2, &c, &m2).await,
                128 => c08_body::<128>(md, &net2, &c, &m2).await,
                8192 => c08_body::<8192>(md, &net2, &c, &m2).await,
                16384 => c08_body::<16384>(md, &net2, &c, &m2).await,
                _ => c08_body::<1024>(md, &net2, &c, &m2).await,
            }
        })
    })
    .map_err(|e| sim_fail("C08", e))?;

    let obs = match res {
        Ok(o) => o,
        Err(e) => fail!("C08|harness-init", "init of {n} healthy devices failed: {e:?}"),
    };

    let net = net.borrow();
    let max_pdi = usize::from(case.max_pdi);

    if std::env::var_os("VERIF_DEBUG").is_some() {
        for (i, d) in net.devices.iter().enumerate() {
            eprintln!("device {i}: al {} err {} n_fmmu {} n_sm {}", d.al_state, d.al_error, d.n_fmmu, d.n_sm);

            for f in 0..d.n_fmmu {
                let r = d.fmmu(f);

                if r.enabled {
                    eprintln!("  fmmu{f}: {r:x?}");
                }
            }

            for f in 0..d.n_sm {
                eprintln!("  sm{f}: {:x?}", d.sm(f));
            }

            eprintln!("  expected {:x?}", d.expected_pd_sms());
        }

        for (gi, g) in obs.groups.iter().enumerate() {
            eprintln!("group {gi}: {g:x?}");
        }

        for (gi, fs) in obs.frames.iter().enumerate() {
            for f in fs {
                eprintln!("group {gi} frame {}", hex(f));
            }
        }
    }

    // Classification
    let odd = case.devices.iter().filter(|d| d.out_sms.iter().chain(d.in_sms.iter()).any(|sm| sm.iter().flatten().map(|b| usize::from(*b)).sum::<usize>() % 8 != 0)).count();
    let multi_sm = case.devices.iter().any(|d| d.out_sms.len() >= 2 || d.in_sms.len() >= 2);
    let groups_used = members.iter().filter(|m| !m.is_empty()).count();

    info.count("devices", n as u64);

    if odd >= 2 {
        info.label("non-byte-multiple-lengths");
    }

    if multi_sm {
        info.label("several-sms-per-direction");
    }

    if groups_used >= 2 {
        info.label("several-groups");
    }

    if case.devices.iter().any(|d| !d.oversampling.is_empty()) {
        info.label("oversampling");
    }

    if case.devices.iter().any(|d| d.coe) {
        info.label("coe-pdo-config");
    }

    if case.dc_first {
        info.label("dc-sync-configured-before-the-pdi");
    }

    if case.devices.iter().any(|d| d.strict) {
        info.label("strict-device");
    }

    if case.devices.iter().any(|d| d.noncontig && (d.out_sms.len() >= 2 || d.in_sms.len() >= 2)) {
        info.label("non-adjacent-sms");
    }

    info.nontrivial = odd >= 2 || multi_sm || groups_used >= 2;

    // Logical range of each group as seen on the wire during its cycle
    let mut wire_ranges: Vec<Vec<(u64, u64)>> = vec![Vec::new(); 3];

    for (gi, fs) in obs.frames.iter().enumerate() {
        for f in fs {
            if let Ok(d) = wire::check_tx_wellformed(f, cfg.frame_size) {
                for dg in &d.datagrams {
                    if matches!(dg.code, wire::LRW | wire::LRD | wire::LWR) {
                        wire_ranges[gi].push((u64::from(dg.logical()), u64::from(dg.logical()) + u64::from(dg.len)));
                    }
                }
            }
        }
    }


    for (gi, out) in obs.groups.iter().enumerate() {
        let mem = &members[gi];
        let want_in: usize = mem.iter().map(|i| case.devices[*i].in_len_real()).sum();
        let want_out: usize = mem.iter().map(|i| case.devices[*i].out_len_real()).sum();
        let want_total = want_in + want_out;

        match out {
            GroupOut::Failed { too_long, err } => {
                info.label("group-transition-failed");

                let strict_in_group = mem.iter().any(|i| case.devices[*i].strict);

                if want_total > max_pdi {
                    info.nontrivial = true;
                    info.label("layout-exceeds-max-pdi");

                    ensure!(
                        too_long.is_some() || strict_in_group,
                        "C08|over-capacity-wrong-error",
                        "group {gi} needs {want_total} bytes, MAX_PDI is {max_pdi}: expected PdiTooLong, got {err}"
                    );

                    continue;
                }

                // Known simulator-side refusals are judged below through the strict device's reason
                let strict_refused = mem.iter().find(|i| net.devices[**i].al_error);

                if let Some(i) = strict_refused {
                    let d = &net.devices[*i];
                    let want = d.expected_pd_sms();
                    let have: Vec<_> = want.iter().map(|(smi, ..)| d.sm(*smi)).collect();

                    fail!(
                        "C08|device-refuses-sm-configuration",
                        "group {gi}: device {i} refused SAFE-OP: the sync managers it needs are {want:x?} (index, start, length, written by MainDevice) but it was programmed with {have:x?}; strict = {}",
                        d.spec.strict
                    );
                }

                // A strict device has only the FMMUs its SII declares; running out of them is an
                // error the MainDevice reports, not a wrong mapping
                if strict_in_group {
                    info.label("strict-device-short-of-fmmus");

                    continue;
                }

                fail!("C08|healthy-group-failed", "group {gi} ({} devices, {want_total} bytes, MAX_PDI {max_pdi}) failed: {err}", mem.len());
            }
            GroupOut::Ok { windows, cycle } => {
                ensure!(
                    want_total <= max_pdi,
                    "C08|over-capacity-accepted",
                    "group {gi} needs {want_total} bytes but MAX_PDI is {max_pdi}; the transition succeeded"
                );

                ensure!(windows.len() == mem.len(), "C08|member-count", "group {gi}: {} windows for {} members", windows.len(), mem.len());

                if let Err(e) = cycle {
                    fail!("C08|cycle-failed", "tx_rx on group {gi} failed: {e}");
                }

                // lengths
                for (j, w) in windows.iter().enumerate() {
                    let i = mem[j];
                    let k = &case.devices[i];

                    ensure!(
                        w.in_len == k.in_len_real(),
                        "C08|input-window-length",
                        "device {i}: input window is {} bytes, its PDO configuration needs {} (sync managers {:?}, oversampling {:?})",
                        w.in_len,
                        k.in_len_real(),
                        k.in_sms,
                        k.oversampling
                    );
                    ensure!(
                        w.out_len == k.out_len_real(),
                        "C08|output-window-length",
                        "device {i}: output window is {} bytes, its PDO configuration needs {} (sync managers {:?}, oversampling {:?})",
                        w.out_len,
                        k.out_len_real(),
                        k.out_sms,
                        k.oversampling
                    );
                }

                // geometry (by address inside the one image array of the group)
                let mut spans: Vec<(usize, usize, bool, usize)> = Vec::new();

                for (j, w) in windows.iter().enumerate() {
                    if w.in_len > 0 {
                        spans.push((w.in_ptr, w.in_ptr + w.in_len, true, mem[j]));
                    }

                    if w.out_len > 0 {
                        spans.push((w.out_ptr, w.out_ptr + w.out_len, false, mem[j]));
                    }
                }

                spans.sort();

                for p in spans.windows(2) {
                    ensure!(
                        p[0].1 <= p[1].0,
                        "C08|windows-overlap",
                        "group {gi}: the {} window of device {} and the {} window of device {} overlap",
                        if p[0].2 { "input" } else { "output" },
                        p[0].3,
                        if p[1].2 { "input" } else { "output" },
                        p[1].3
                    );
                }

                let last_in = spans.iter().filter(|s| s.2).map(|s| s.1).max();
                let first_out = spans.iter().filter(|s| !s.2).map(|s| s.0).min();

                if let (Some(a), Some(b)) = (last_in, first_out) {
                    ensure!(a <= b, "C08|inputs-not-before-outputs", "group {gi}: an input window ends after an output window starts");
                }

                if let (Some(first), Some(last)) = (spans.first(), spans.last()) {
                    ensure!(
                        last.1 - first.0 <= max_pdi,
                        "C08|windows-outside-image",
                        "group {gi}: the windows span {} bytes, the image holds {max_pdi}",
                        last.1 - first.0
                    );
                }

                // marking experiment: inputs
                for (j, w) in windows.iter().enumerate() {
                    let i = mem[j];
                    let d = &net.devices[i];
                    let mut want = Vec::new();

                    for (_, start, len, master_writes) in d.expected_pd_sms() {
                        if !master_writes {
                            // as preloaded: the device does not touch its inputs in this experiment
                            want.extend_from_slice(&obs.ram_before[i][usize::from(start) - RAM0..usize::from(start) - RAM0 + usize::from(len)]);
                        }
                    }

                    // Known: a group whose configuration failed after running past its MAX_PDI leaves its
                    // devices' FMMUs programmed beyond its own capacity, i.e. inside the next group's
                    // logical range
                    let squatter = (0..3).filter(|o| *o != gi && matches!(obs.groups[*o], GroupOut::Failed { .. })).any(|o| {
                        members[o].iter().any(|m| {
                            let dv = &net.devices[*m];

                            (0..dv.n_fmmu).any(|f| {
                                let r = dv.fmmu(f);

                                r.enabled && r.len > 0 && wire_ranges[gi].iter().any(|(a, e)| u64::from(r.logical) < *e && *a < u64::from(r.logical) + u64::from(r.len))
                            })
                        })
                    });

                    ensure!(
                        w.inputs_after == want,
                        format!("C08|inputs-differ{}", if squatter { "|fmmus-of-a-group-that-exceeded-max-pdi-overlap-this-group" } else { shared_fmmu_class(&case.devices[i], false) }),
                        "device {i} (group {gi}): its input memory holds {} but its input window shows {} after one cycle",
                        hex(&want),
                        hex(&w.inputs_after)
                    );

                    let pat = out_pattern(case.seed, i, w.out_len);

                    ensure!(w.outputs_after == pat, "C08|outputs-window-changed", "device {i}: the output window changed during the cycle: wrote {}, now {}", hex(&pat), hex(&w.outputs_after));
                }
            }
        }
    }

    // marking experiment: device side
    for gi in 0..3 {
        let GroupOut::Ok { .. } = &obs.groups[gi] else { continue };

        for i in &members[gi] {
            let d = &net.devices[*i];
            let k = &case.devices[*i];
            let pat = out_pattern(case.seed, *i, k.out_len_real());
            let mut expect = obs.ram_before[*i].clone();
            let mut at = 0;

            for (smi, start, len, master_writes) in d.expected_pd_sms() {
                let s = d.sm(smi);

                // sync manager registers as the device needs them
                ensure!(
                    s.start == start && s.len == len && s.enabled == (len > 0),
                    "C08|sync-manager-registers",
                    "device {i}: SM{smi} should be start {start:#x} length {len} enabled {}, programmed: start {:#x} length {} enabled {}",
                    len > 0,
                    s.start,
                    s.len,
                    s.enabled
                );

                if master_writes {
                    let a = usize::from(start) - RAM0;
                    let l = usize::from(len);

                    expect[a..a + l].copy_from_slice(&pat[at..at + l]);
                    at += l;
                }
            }

            let after = &d.mem[RAM0..];

            if after != &expect[..] {
                let first = after.iter().zip(expect.iter()).position(|(a, b)| a != b).unwrap();
                let in_out_sm = d.expected_pd_sms().iter().any(|(_, start, len, w)| *w && (usize::from(*start)..usize::from(*start) + usize::from(*len)).contains(&(first + RAM0)));

                fail!(
                    format!("{}{}", if in_out_sm { "C08|outputs-not-delivered" } else { "C08|foreign-memory-written" }, shared_fmmu_class(k, true)),
                    "device {i} (group {gi}): after one cycle process RAM differs from the expectation first at {:#06x}: holds {:#04x}, expected {:#04x} (output pattern {}; output sync managers {:x?})",
                    first + RAM0,
                    after[first],
                    expect[first],
                    hex(&pat),
                    d.expected_pd_sms().iter().filter(|s| s.3).collect::<Vec<_>>()
                );
            }
        }
    }

    // Devices of a group whose transition failed are left half configured in PRE-OP (a failed
    // configuration is not rolled back); the statement speaks about groups that were brought to
    // SAFE-OP / OP, so nothing is asserted about those devices.

    // logical ranges on the wire: images of different groups are disjoint
    for a in 0..3 {
        for b in a + 1..3 {
            for (s1, e1) in &wire_ranges[a] {
                for (s2, e2) in &wire_ranges[b] {
                    ensure!(
                        e1 <= s2 || e2 <= s1,
                        "C08|group-images-overlap",
                        "group {a} cycles logical {s1:#x}..{e1:#x} and group {b} cycles {s2:#x}..{e2:#x}: the ranges overlap"
                    );
                }
            }
        }
    }

    Ok(())
}

// ---------------------------------------------------------------------------------------------
// C07
// ---------------------------------------------------------------------------------------------

#[derive(Serialize, Deserialize, Clone, Copy, Debug, PartialEq, Eq, Hash)]
pub enum Variant {
    Plain,
    SyncSystemTime,
    Dc,
}

#[derive(Serialize, Deserialize, Clone, Debug, PartialEq, Eq, Hash)]
pub struct C07Case {
    /// Per device: input bytes, output bytes, DC capable
    pub devices: Vec<(u16, u16, bool)>,
    /// Frame size (PduStorage DATA) of the MainDevice that runs the cycle
    pub frame: u16,
    pub variant: Variant,
    pub seed: u64,
}

fn dev_size() -> impl Strategy<Value = u16> {
    prop_oneof![2 => Just(0u16), 4 => 1u16..=16, 3 => 17u16..=120, 1 => 121u16..=700]
}

pub fn c07_case() -> impl Strategy<Value = C07Case> {
    (
        prop::collection::vec((dev_size(), dev_size(), prop::bool::weighted(0.6)), 0..=8),
        prop_oneof![Just(Variant::Plain), Just(Variant::SyncSystemTime), Just(Variant::Dc)],
        any::<u64>(),
        0usize..1000,
        prop::bool::weighted(0.5),
        0usize..3,
        -1i32..=1,
    )
        .prop_map(|(mut devices, variant, seed, fi, boundary, k, delta)| {
            // a tenth of the networks carries no process data at all (couplers only): the cycle
            // consists of the clock datagram and state checks
            if seed % 10 == 0 {
                for d in &mut devices {
                    d.0 = 0;
                    d.1 = 0;
                }
            }

            // keep the image within MAX_PDI = 2048
            let mut total = 0usize;

            for d in &mut devices {
                if total + usize::from(d.0) + usize::from(d.1) > 2048 {
                    d.0 = 0;
                    d.1 = 0;
                }

                total += usize::from(d.0) + usize::from(d.1);
            }

            let min = match variant {
                Variant::Plain => 30,
                // init runs on the same MainDevice
                Variant::SyncSystemTime => 64,
                Variant::Dc => 50,
            };

            // Every frame size exists for single-slot storages, which is all one cycle needs.
            // Either any size (small ones more often), or one that puts the end of the image
            // (after k state checks / the clock datagram) on the frame boundary +-1
            let frame = if boundary && total > 0 {
                let dc = if variant == Variant::Plain { 0 } else { 20 };
                let want = (16 + dc + 12 + total + 14 * k) as i32 + delta;

                want.clamp(min as i32, 1514) as usize
            } else if fi < 500 {
                min + fi * (160 - min) / 500
            } else {
                160 + (fi - 500) * (1514 - 160) / 499
            };

            C07Case { devices, frame: frame as u16, variant, seed }
        })
}

pub const C07_RULE: &str = "case = (0..8 devices with 0..700 input and output bytes each (image 0..2048 bytes, every split incl. all-in, all-out, empty), some DC capable; cycle variant plain | sync system time | DC; every frame size 30..1514 (50.. for DC, 64.. when init shares the MainDevice), half of the cases with a size that puts the image end on the frame boundary +-1); the group is produced by real init + into_op, the cycle is run by a MainDevice with the generated frame size; non-trivial = the cycle needs >= 2 frames or a process data datagram ends within 14 bytes of the frame end; distinct by hash of the case";

fn c07_knobs(i: usize, d: &(u16, u16, bool), seed: u64) -> DevKnobs {
    let entries = |bytes: u16| -> Vec<Vec<Vec<u8>>> {
        if bytes == 0 {
            return vec![];
        }

        let mut e: Vec<u8> = vec![64; usize::from(bytes / 8)];

        e.extend(std::iter::repeat_n(8u8, usize::from(bytes % 8)));

        // PDOs of at most 100 entries
        vec![e.chunks(100).map(|c| c.to_vec()).collect()]
    };

    DevKnobs {
        name: format!("D{i}").into_bytes(),
        long_name: b"Device".to_vec(),
        vendor: 1,
        product: 2 + i as u32,
        revision: 3,
        serial: 4,
        alias: 0,
        stale_addr: 0,
        mailbox: false,
        coe: false,
        mbx_size: 32,
        out_sms: entries(d.1),
        in_sms: entries(d.0),
        fmmu_ex: false,
        dc: if d.2 { crate::simnet::DcKind::Bits64 } else { crate::simnet::DcKind::None },
        chunk8: true,
        sii_busy_polls: 0,
        strict: false,
        unknown_cats: 0,
        input_seed: seed ^ i as u64,
        clock_offset: seed.rotate_left(i as u32 * 7) >> 20,
        link_delay: 100,
        down_ports: 1,
        complete_access: false,
        oversampling: vec![],
        noncontig: false,
        unnamed: false,
    }
}

type G7 = SubDeviceGroup<8, 2048>;

#[derive(Debug, Clone)]
struct CycleObs {
    res: Result<(u16, Vec<u8>, Option<u64>), String>,
    tx: Vec<Vec<u8>>,
    rx: Vec<Vec<u8>>,
    inputs_after: Vec<Vec<u8>>,
    outputs_after: Vec<Vec<u8>>,
    served_before: Vec<usize>,
    served_after: Vec<usize>,
}

fn state_nibble(s: ethercrab::SubDeviceState) -> u8 {
    use ethercrab::SubDeviceState as S;

    match s {
        S::None => 0,
        S::Init => 1,
        S::PreOp => 2,
        S::Bootstrap => 3,
        S::SafeOp => 4,
        S::Op => 8,
        S::Other(n) => n,
    }
}

async fn c07_cycle<S: HasPdi, DC>(
    net: &NetHandle,
    case: &C07Case,
    g: &SubDeviceGroup<8, 2048, ethercrab::DefaultLock, S, DC>,
    md: &MainDevice<'_>,
    run: impl AsyncFnOnce() -> Result<(u16, Vec<u8>, Option<u64>), Error>,
) -> CycleObs {
    for (j, sd) in g.iter(md).enumerate() {
        let mut o = sd.outputs_raw_mut();
        let pat = out_pattern(case.seed, j, o.len());

        o.copy_from_slice(&pat);
    }

    let served_before;

    {
        let mut n = net.borrow_mut();

        for (i, d) in n.devices.iter_mut().enumerate() {
            let ins: Vec<(usize, u16, u16, bool)> = d.expected_pd_sms().into_iter().filter(|s| !s.3).collect();
            let total: usize = ins.iter().map(|s| usize::from(s.2)).sum();
            let pat = in_pattern(case.seed, i, total);
            let mut at = 0;

            for (_, start, len, _) in ins {
                let a = usize::from(start);
                let l = usize::from(len);

                d.mem[a..a + l].copy_from_slice(&pat[at..at + l]);
                at += l;
            }
        }

        served_before = n.devices.iter().map(|d| d.stats.al_served.len()).collect();
        n.log_frames = true;
        n.stats.tx_log.clear();
        n.stats.rx_log.clear();
    }

    let res = run().await.map_err(|e| format!("{e:?}"));

    let mut n = net.borrow_mut();

    n.log_frames = false;

    CycleObs {
        res,
        tx: std::mem::take(&mut n.stats.tx_log),
        rx: std::mem::take(&mut n.stats.rx_log),
        inputs_after: g.iter(md).map(|sd| sd.inputs_raw().to_vec()).collect(),
        outputs_after: g.iter(md).map(|sd| sd.outputs_raw().to_vec()).collect(),
        served_before,
        served_after: n.devices.iter().map(|d| d.stats.al_served.len()).collect(),
    }
}

pub fn run_c07(case: &C07Case, info: &mut CaseInfo) -> Result<(), Fail> {
    let n = case.devices.len();

    if std::env::var_os("VERIF_DEBUG").is_some() {
        eprintln!("{case:?}");
    }

    let knobs: Vec<DevKnobs> = case.devices.iter().enumerate().map(|(i, d)| c07_knobs(i, d, case.seed)).collect();
    let spec: NetSpec = simgen::build_net(&knobs, &[], &[]);
    let net: NetHandle = Rc::new(RefCell::new(Network::new(&spec)));
    let frame = usize::from(case.frame);
    let variant = case.variant;
    let any_dc = case.devices.iter().any(|d| d.2);

    let dc_conf = ethercrab::subdevice_group::DcConfiguration {
        start_delay: std::time::Duration::from_millis(1),
        sync0_period: std::time::Duration::from_micros(1000),
        sync0_shift: std::time::Duration::from_micros(250),
    };

    // Phase 1: init and transitions with a comfortable frame size (the same MainDevice runs the
    // cycle in the sync-system-time variant, because the reference clock address lives in it)
    let cfg1 = SimConfig { frame_size: if variant == Variant::SyncSystemTime { frame } else { 1100 }, slots: if variant == Variant::SyncSystemTime { 1 } else { 16 }, ..Default::default() };
    let c = case.clone();
    let net2 = net.clone();

    enum Built {
        Plain(SubDeviceGroup<8, 2048, ethercrab::DefaultLock, ethercrab::subdevice_group::Op>),
        Dc(SubDeviceGroup<8, 2048, ethercrab::DefaultLock, ethercrab::subdevice_group::Op, ethercrab::subdevice_group::HasDc>),
        Done(CycleObs),
    }

    let built: Result<Built, Error> = simexec::run(&net, &cfg1, |md| {
        Box::pin(async move {
            let g: G7 = md.init_single_group::<8, 2048>(|| 0).await?;

            match variant {
                Variant::Plain => Ok(Built::Plain(g.into_op(md).await?)),
                Variant::Dc => {
                    let g = g.into_pre_op_pdi(md).await?;

                    match g.configure_dc_sync(md, dc_conf).await {
                        Ok(g) => Ok(Built::Dc(g.into_op(md).await?)),
                        Err(e) => Err(e),
                    }
                }
                Variant::SyncSystemTime => {
                    let g = g.into_op(md).await?;
                    let obs = c07_cycle(&net2, &c, &g, md, async || {
                        let r = g.tx_rx_sync_system_time(md).await?;

                        Ok((r.working_counter, r.subdevice_states.iter().map(|s| state_nibble(*s)).collect(), r.extra))
                    })
                    .await;

                    Ok(Built::Done(obs))
                }
            }
        })
    })
    .map_err(|e| sim_fail("C07", e))?;

    let built = match built {
        Ok(b) => b,
        Err(Error::DistributedClock(_)) if variant == Variant::Dc && !any_dc => {
            info.label("dc-variant-without-dc-device");

            return Ok(());
        }
        Err(e) => fail!("C07|harness-init", "bringing {n} healthy devices to OP failed: {e:?}"),
    };

    // Phase 2: a second MainDevice with the generated frame size runs the cycle
    let cfg2 = SimConfig { frame_size: frame, slots: 1, keep_clock: true, ..Default::default() };
    let c = case.clone();
    let net2 = net.clone();

    let obs: CycleObs = match built {
        Built::Done(o) => o,
        Built::Plain(g) => simexec::run(&net, &cfg2, |md| {
            Box::pin(async move {
                c07_cycle(&net2, &c, &g, md, async || {
                    let r = g.tx_rx(md).await?;

                    Ok((r.working_counter, r.subdevice_states.iter().map(|s| state_nibble(*s)).collect(), None))
                })
                .await
            })
        })
        .map_err(|e| sim_fail("C07", e))?,
        Built::Dc(g) => simexec::run(&net, &cfg2, |md| {
            Box::pin(async move {
                c07_cycle(&net2, &c, &g, md, async || {
                    let r = g.tx_rx_dc(md).await?;

                    Ok((r.working_counter, r.subdevice_states.iter().map(|s| state_nibble(*s)).collect(), Some(r.extra.dc_system_time)))
                })
                .await
            })
        })
        .map_err(|e| sim_fail("C07", e))?,
    };

    let net = net.borrow();
    let in_total: usize = case.devices.iter().map(|d| usize::from(d.0)).sum();
    let out_total: usize = case.devices.iter().map(|d| usize::from(d.1)).sum();
    let total = in_total + out_total;
    // the sync-system-time variant only sends the clock datagram when a reference clock exists
    let with_clock = match variant {
        Variant::Plain => false,
        Variant::SyncSystemTime => any_dc,
        Variant::Dc => true,
    };

    info.label(format!("{variant:?}"));
    info.count("image-bytes", total as u64);
    info.label(match (in_total, out_total) {
        (0, 0) => "image-empty",
        (_, 0) => "image-inputs-only",
        (0, _) => "image-outputs-only",
        _ => "image-mixed",
    });

    let (wkc, states, time) = match &obs.res {
        Ok(r) => r.clone(),
        Err(e) => fail!("C07|cycle-failed", "the cycle on a healthy network failed ({variant:?}, frame size {frame}, image {total} bytes, {n} devices): {e}"),
    };

    // ---- the frames -----------------------------------------------------------------------
    let cap = frame - 16;
    let mut next_addr: u64 = 0;
    let mut lrw_wkc_sum: u32 = 0;
    let mut clock_seen = 0;
    let mut clock_answer: Option<u64> = None;
    let mut returned: Vec<u8> = Vec::new();
    let mut near_boundary = false;

    for (fi, f) in obs.tx.iter().enumerate() {
        ensure!(f.len() <= frame, "C07|frame-too-long", "frame {fi} of the cycle has {} bytes, the configured frame size is {frame}", f.len());

        let d = wire::decode_frame(f).map_err(|e| Fail::new("C04|malformed-frame-on-wire", e))?;
        let r = wire::decode_frame(&obs.rx[fi]).map_err(|e| Fail::new("harness|bad-response", e))?;
        let mut used = 0usize;

        for (di, dg) in d.datagrams.iter().enumerate() {
            used += 12 + usize::from(dg.len);

            match dg.code {
                wire::LRW | wire::LRD | wire::LWR => {
                    ensure!(dg.code == wire::LRW, "C07|wrong-command", "process data is exchanged with command {:#x}", dg.code);
                    ensure!(
                        u64::from(dg.logical()) == next_addr,
                        "C07|tiling",
                        "frame {fi}: process data datagram covers logical {:#x}..{:#x}, expected it to start at {next_addr:#x} (image {total} bytes, frame size {frame})",
                        dg.logical(),
                        u64::from(dg.logical()) + u64::from(dg.len)
                    );
                    ensure!(dg.len > 0, "C07|empty-datagram", "frame {fi}: process data datagram of length 0");

                    next_addr += u64::from(dg.len);
                    lrw_wkc_sum += u32::from(r.datagrams[di].wkc);
                    returned.extend_from_slice(&r.datagrams[di].data);

                    if cap - used < 14 {
                        near_boundary = true;
                    }
                }
                wire::FRMW => {
                    clock_seen += 1;

                    ensure!(fi == 0 && di == 0, "C07|clock-datagram-position", "a time distribution datagram is datagram {di} of frame {fi} of the cycle");
                    ensure!(dg.ado() == 0x0910 && dg.len == 8, "C07|clock-datagram", "time distribution datagram addresses register {:#x} with {} bytes", dg.ado(), dg.len);

                    let reference = net.devices.iter().find(|d| d.spec.dc != crate::simnet::DcKind::None).map(|d| d.station_addr());

                    ensure!(Some(dg.adp()) == reference, "C07|clock-datagram", "time distribution datagram goes to {:#06x}, the reference clock is {reference:x?}", dg.adp());

                    clock_answer = Some(u64::from_le_bytes(r.datagrams[di].data[..8].try_into().unwrap()));
                }
                wire::FPRD => {
                    ensure!(dg.ado() == 0x0130 && dg.len == 2, "C07|unexpected-datagram", "frame {fi}: FPRD of register {:#x} ({} bytes) inside a cycle", dg.ado(), dg.len);
                }
                other => fail!("C07|unexpected-datagram", "frame {fi}: command {other:#x} inside a process data cycle"),
            }
        }
    }

    ensure!(
        next_addr == total as u64,
        "C07|tiling",
        "the process data datagrams of the cycle cover {next_addr} bytes, the image has {total} (frame size {frame}, {} frames)",
        obs.tx.len()
    );

    ensure!(
        clock_seen == usize::from(with_clock),
        "C07|clock-datagram-count",
        "{clock_seen} time distribution datagram(s) in the cycle, expected {}",
        usize::from(with_clock)
    );

    if with_clock {
        ensure!(time == clock_answer, "C07|reported-time", "the reference clock answered {clock_answer:?}, the cycle reports {time:?}");
    }

    // ---- the results ----------------------------------------------------------------------
    ensure!(u32::from(wkc) == lrw_wkc_sum, "C07|working-counter", "the process data datagrams came back with working counters summing to {lrw_wkc_sum}, the cycle reports {wkc}");

    let want_wkc: u32 = case.devices.iter().map(|d| u32::from(d.0 > 0) + 2 * u32::from(d.1 > 0)).sum();

    ensure!(lrw_wkc_sum == want_wkc || obs.tx.len() > 1, "harness|wkc-model", "single frame cycle: devices should produce working counter {want_wkc}, simulator produced {lrw_wkc_sum}");

    ensure!(states.len() == n, "C07|state-list-length", "{} states reported for {n} devices (frame size {frame}, {} frames)", states.len(), obs.tx.len());

    for i in 0..n {
        let served = &net.devices[i].stats.al_served[obs.served_before[i]..obs.served_after[i]];

        ensure!(served.len() == 1, "C07|status-not-read-once", "device {i}: AL status read {} times in one cycle", served.len());
        ensure!(states[i] == served[0] & 0x0f, "C07|state-list-differs", "subdevice_states[{i}] = {:#x}, the device reported {:#x}", states[i], served[0]);
    }

    // inputs: what the network returned for the first in_total bytes
    let got_inputs: Vec<u8> = obs.inputs_after.iter().flatten().copied().collect();

    ensure!(got_inputs.len() == in_total, "harness|window-lengths", "input windows hold {} bytes, the devices have {in_total}", got_inputs.len());
    ensure!(
        got_inputs[..] == returned[..in_total],
        "C07|inputs-differ",
        "the network returned {} for the input part of the image, the local image holds {} (frame size {frame}, {} frames)",
        hex(&returned[..in_total]),
        hex(&got_inputs),
        obs.tx.len()
    );

    let mut mem_inputs = Vec::new();

    for (i, _) in case.devices.iter().enumerate() {
        for (_, start, len, w) in net.devices[i].expected_pd_sms() {
            if !w {
                mem_inputs.extend_from_slice(&net.devices[i].mem[usize::from(start)..usize::from(start) + usize::from(len)]);
            }
        }
    }

    ensure!(got_inputs == mem_inputs, "C07|inputs-differ", "the devices' input memory holds {}, the local image holds {}", hex(&mem_inputs), hex(&got_inputs));

    // outputs: byte for byte what the application wrote, locally and in the devices
    for (i, d) in case.devices.iter().enumerate() {
        let pat = out_pattern(case.seed, i, usize::from(d.1));

        ensure!(obs.outputs_after[i] == pat, "C07|outputs-changed", "device {i}: the application wrote {}, after the cycle the output part of the image holds {}", hex(&pat), hex(&obs.outputs_after[i]));

        let mut mem = Vec::new();

        for (_, start, len, w) in net.devices[i].expected_pd_sms() {
            if w {
                mem.extend_from_slice(&net.devices[i].mem[usize::from(start)..usize::from(start) + usize::from(len)]);
            }
        }

        ensure!(mem == pat, "C07|outputs-not-delivered", "device {i}: the application wrote {}, the device's output memory holds {} (frame size {frame}, {} frames)", hex(&pat), hex(&mem), obs.tx.len());
    }

    // ---- frame count: never more than the straightforward packer needs ---------------------
    let mut ref_frames = 0usize;
    let mut left = total;
    let mut checks = n;
    let mut clock = with_clock;

    loop {
        let mut room = cap;
        let mut used_any = false;

        if clock {
            room -= 20;
            clock = false;
            used_any = true;
        }

        if left > 0 && room >= 13 {
            let take = left.min(room - 12);

            left -= take;
            room -= 12 + take;
            used_any = true;
        }

        while checks > 0 && room >= 14 {
            checks -= 1;
            room -= 14;
            used_any = true;
        }

        if !used_any {
            break;
        }

        ref_frames += 1;

        if left == 0 && checks == 0 {
            break;
        }
    }

    info.count("frames", obs.tx.len() as u64);

    ensure!(
        obs.tx.len() <= ref_frames,
        "C07|too-many-frames",
        "the cycle used {} frames; packing the image first and the state checks behind it needs {ref_frames} (image {total} bytes, {n} devices, frame size {frame}, clock datagram {with_clock})",
        obs.tx.len()
    );

    if obs.tx.len() >= 2 {
        info.label("several-frames");
    }

    if near_boundary {
        info.label("chunk-ends-near-frame-end");
    }

    info.nontrivial = obs.tx.len() >= 2 || near_boundary;

    Ok(())
}
