//! C20 — tasks sharing one MainDevice do not disturb each other.
//!
//! Differential: a set of cooperative tasks (process data cycles of different groups, register
//! accesses, SDO transfers and EEPROM reads on different devices) runs concurrently under a
//! generated schedule and generated per-frame latencies (responses arrive out of send order); each
//! task is also run alone on an identically set up segment. Every operation must yield the same
//! result in both runs.

use crate::{
    core::*,
    ensure, fail,
    sim_checks::sim_fail,
    simexec::{self, BoxFut, NetHandle, Scheduled, SimConfig},
    simgen::{self, DevKnobs},
    simnet::{DcKind, NetSpec, Network, ObjBehaviour, Object, UploadPolicy},
    util::{bytes_from_seed, hex},
};
use ethercrab::{MainDevice, SubDeviceGroup, error::Error, subdevice_group::Op};
use proptest::prelude::*;
use serde::{Deserialize, Serialize};
use std::{cell::RefCell, rc::Rc};

#[derive(Serialize, Deserialize, Clone, Debug, PartialEq, Eq, Hash)]
pub enum DevOp {
    RegWrite { off: u8, value: u32 },
    RegRead { off: u8 },
    SdoRead,
    SdoReadString,
    SdoWrite { value: u32 },
    EepromRead { word: u8, len: u8 },
}

#[derive(Serialize, Deserialize, Clone, Debug, PartialEq, Eq, Hash)]
pub enum Task {
    /// Process data cycles of one group with evolving outputs
    Cycle { group: u8, cycles: u8 },
    /// Register / mailbox / EEPROM accesses on one device
    Device { dev: u8, ops: Vec<DevOp> },
}

#[derive(Serialize, Deserialize, Clone, Debug, PartialEq, Eq, Hash)]
pub struct C20Case {
    /// Per device: input bytes, output bytes, has CoE
    pub devices: Vec<(u8, u8, bool)>,
    pub ngroups: u8,
    pub assign: Vec<u8>,
    pub tasks: Vec<Task>,
    /// Schedule: which runnable task is polled next
    pub choices: Vec<u8>,
    /// Round trip time of successive frames, us
    pub latencies: Vec<u16>,
    /// Frame slots: false = just enough, true = ample (16)
    pub ample: bool,
    /// Negative control: half of what is needed. Allocation failures are then legitimate.
    #[serde(default)]
    pub too_small: bool,
    pub seed: u64,
}

fn dev_ops() -> impl Strategy<Value = Vec<DevOp>> {
    prop::collection::vec(
        prop_oneof![
            3 => (0u8..8, any::<u32>()).prop_map(|(off, value)| DevOp::RegWrite { off, value }),
            3 => (0u8..8).prop_map(|off| DevOp::RegRead { off }),
            2 => Just(DevOp::SdoRead),
            2 => Just(DevOp::SdoReadString),
            2 => any::<u32>().prop_map(|value| DevOp::SdoWrite { value }),
            2 => (0u8..40, 1u8..=16).prop_map(|(word, len)| DevOp::EepromRead { word, len }),
        ],
        1..6,
    )
}

pub fn c20_case() -> impl Strategy<Value = C20Case> {
    (2usize..=8, 2u8..=3).prop_flat_map(|(n, ngroups)| {
        (
            prop::collection::vec((0u8..=12, 0u8..=12, prop::bool::weighted(0.5)), n),
            prop::collection::vec(0u8..ngroups, n),
            // candidate tasks; duplicates on one resource are removed below
            prop::collection::vec(prop_oneof![2 => (0u8..3, 1u8..=4).prop_map(|(group, cycles)| Task::Cycle { group, cycles }), 3 => (0u8..8, dev_ops()).prop_map(|(dev, ops)| Task::Device { dev, ops })], 2..=6),
            prop::collection::vec(any::<u8>(), 1..40),
            prop_oneof![1 => Just(vec![5u16]), 3 => prop::collection::vec(prop_oneof![2 => 1u16..=20, 2 => 20u16..=500], 2..12)],
            any::<bool>(),
            prop::bool::weighted(0.1),
            any::<u64>(),
        )
            .prop_map(move |(devices, assign, cand, choices, latencies, ample, too_small, seed)| {
                let mut tasks: Vec<Task> = Vec::new();

                for t in cand {
                    let t = match t {
                        Task::Cycle { group, cycles } => Task::Cycle { group: group % ngroups, cycles },
                        Task::Device { dev, ops } => Task::Device { dev: dev % n as u8, ops },
                    };

                    let clash = tasks.iter().any(|o| match (o, &t) {
                        (Task::Cycle { group: a, .. }, Task::Cycle { group: b, .. }) => a == b,
                        (Task::Device { dev: a, .. }, Task::Device { dev: b, .. }) => a == b,
                        _ => false,
                    });

                    if !clash && tasks.len() < 4 {
                        tasks.push(t);
                    }
                }

                C20Case { devices, ngroups, assign, tasks, choices, latencies, ample: ample && !too_small, too_small, seed }
            })
            .prop_filter("at least two tasks", |c| c.tasks.len() >= 2)
    })
}

pub const C20_RULE: &str = "case = (segment of 2..8 generated devices (0..12 input / output bytes, with or without CoE) in 2..3 groups brought to OP; 2..4 tasks, each on its own resource: process data cycles of one group with evolving output patterns, or a script of register writes / reads, SDO reads (expedited and segmented) / writes and EEPROM reads on one device; a schedule (which runnable task is polled next at every await point), per-frame round trip times 1..500 us so that responses arrive out of send order, frame storage just enough or ample); every task is also run alone on an identically set up segment; non-trivial = (measured by the executor) at least two frames in flight at once and at least one response delivered while a frame sent earlier was still on its way; distinct by hash of the case";

#[derive(Default)]
pub struct G20 {
    pub g: [SubDeviceGroup<8, 256>; 3],
}

type OpG = SubDeviceGroup<8, 256, ethercrab::DefaultLock, Op>;

const SCRATCH: u16 = 0x0f80;
const OBJ: u16 = 0x2100;
const OBJ_STR: u16 = 0x2101;

fn errs(e: &Error) -> String {
    format!("{e:?}")
}

fn task_fut<'a>(md: &'a MainDevice<'a>, groups: &'a [Option<OpG>], group_of: &'a [usize], index_in_group: &'a [usize], task: &'a Task, seed: u64) -> BoxFut<'a, Vec<String>> {
    Box::pin(async move {
        let mut log: Vec<String> = Vec::new();

        match task {
            Task::Cycle { group, cycles } => {
                let Some(g) = groups[usize::from(*group)].as_ref() else {
                    log.push("group not in OP".into());

                    return log;
                };

                for c in 0..*cycles {
                    for (j, sd) in g.iter(md).enumerate() {
                        let mut o = sd.outputs_raw_mut();
                        let n = o.len();

                        o.copy_from_slice(&bytes_from_seed(seed ^ (u64::from(*group) << 32) ^ (u64::from(c) << 16) ^ j as u64, n));
                    }

                    match g.tx_rx(md).await {
                        Ok(r) => {
                            let states: Vec<String> = r.subdevice_states.iter().map(|s| format!("{s:?}")).collect();
                            let inputs: Vec<String> = g.iter(md).map(|sd| hex(&sd.inputs_raw())).collect();

                            log.push(format!("cycle {c}: wkc {} states {states:?} inputs {inputs:?}", r.working_counter));
                        }
                        Err(e) => log.push(format!("cycle {c}: {}", errs(&e))),
                    }
                }
            }
            Task::Device { dev, ops } => {
                let d = usize::from(*dev);
                let Some(g) = groups[group_of[d]].as_ref() else {
                    log.push("group not in OP".into());

                    return log;
                };

                let sd = match g.subdevice(md, index_in_group[d]) {
                    Ok(sd) => sd,
                    Err(e) => {
                        log.push(errs(&e));

                        return log;
                    }
                };

                for op in ops {
                    let line = match op {
                        DevOp::RegWrite { off, value } => match sd.register_write(SCRATCH + u16::from(*off) * 4, *value).await {
                            Ok(v) => format!("reg write -> {v:#x}"),
                            Err(e) => errs(&e),
                        },
                        DevOp::RegRead { off } => match sd.register_read::<u32>(SCRATCH + u16::from(*off) * 4).await {
                            Ok(v) => format!("reg read -> {v:#x}"),
                            Err(e) => errs(&e),
                        },
                        DevOp::SdoRead => match sd.sdo_read::<u32>(OBJ, 1).await {
                            Ok(v) => format!("sdo read -> {v:#x}"),
                            Err(e) => errs(&e),
                        },
                        DevOp::SdoReadString => match sd.sdo_read::<heapless::String<64>>(OBJ_STR, 0).await {
                            Ok(v) => format!("sdo read -> {v:?}"),
                            Err(e) => errs(&e),
                        },
                        DevOp::SdoWrite { value } => match sd.sdo_write(OBJ, 1, *value).await {
                            Ok(()) => "sdo write ok".to_string(),
                            Err(e) => errs(&e),
                        },
                        DevOp::EepromRead { word, len } => {
                            let mut buf = vec![0u8; usize::from(*len)];

                            match sd.eeprom_read_raw(md, u16::from(*word), &mut buf).await {
                                Ok(n) => format!("eeprom -> {}", hex(&buf[..n])),
                                Err(e) => errs(&e),
                            }
                        }
                    };

                    log.push(line);
                }
            }
        }

        log
    })
}

struct RunOut {
    logs: Vec<Vec<String>>,
    /// Output process memory + scratch registers of every device afterwards
    mems: Vec<(Vec<u8>, Vec<u8>)>,
    overlap: bool,
    reordered: bool,
}

fn c20_run(case: &C20Case, only: Option<usize>) -> Result<Result<RunOut, Error>, Fail> {
    let n = case.devices.len();
    let ng = usize::from(case.ngroups);

    let knobs: Vec<DevKnobs> = case
        .devices
        .iter()
        .enumerate()
        .map(|(i, d)| DevKnobs {
            name: format!("M{i}").into_bytes(),
            long_name: b"Device".to_vec(),
            vendor: 1,
            product: 2 + i as u32,
            revision: 3,
            serial: 4,
            alias: 0,
            stale_addr: 0,
            mailbox: d.2,
            coe: d.2,
            mbx_size: 32,
            out_sms: if d.1 > 0 { vec![vec![vec![8; usize::from(d.1)]]] } else { vec![] },
            in_sms: if d.0 > 0 { vec![vec![vec![8; usize::from(d.0)]]] } else { vec![] },
            fmmu_ex: false,
            dc: DcKind::None,
            chunk8: i % 2 == 0,
            sii_busy_polls: 0,
            strict: false,
            unknown_cats: 0,
            input_seed: case.seed ^ i as u64,
            clock_offset: 0,
            link_delay: 100,
            down_ports: 1,
            complete_access: false,
            oversampling: vec![],
            noncontig: false,
            unnamed: false,
        })
        .collect();

    let mut spec: NetSpec = simgen::build_net(&knobs, &[], &[]);

    for (i, d) in spec.devices.iter_mut().enumerate() {
        if case.devices[i].2 {
            d.od.push(Object { index: OBJ, subs: vec![vec![1], bytes_from_seed(case.seed ^ 77 ^ i as u64, 4)], behaviour: ObjBehaviour::Normal });
            // 40 characters: needs a segmented upload through the 32 byte mailbox
            d.od.push(Object { index: OBJ_STR, subs: vec![bytes_from_seed(case.seed ^ 99 ^ i as u64, 40).into_iter().map(|b| 0x41 + b % 26).collect()], behaviour: ObjBehaviour::Normal });
            d.od.sort_by_key(|o| o.index);
            d.upload = UploadPolicy::Auto;
        }
    }

    let net: NetHandle = Rc::new(RefCell::new(Network::new(&spec)));

    // frames a task can have alive at once: a segmented SDO read holds the initiate response
    // while it requests the segments
    let need: usize = case
        .tasks
        .iter()
        .map(|t| match t {
            Task::Cycle { .. } => 1,
            Task::Device { ops, .. } => {
                if ops.iter().any(|o| matches!(o, DevOp::SdoReadString)) {
                    2
                } else {
                    1
                }
            }
        })
        .sum();

    let slots = if case.ample { 16 } else if case.too_small { (need.next_power_of_two() / 2).max(1) } else { need.next_power_of_two().max(2) };
    let cfg_setup = SimConfig { slots: 16, ..Default::default() };
    let _ = cfg_setup;

    let cfg = SimConfig { slots, latencies: case.latencies.iter().map(|l| u64::from(*l)).collect(), ..Default::default() };
    let group_of: Vec<usize> = (0..n).map(|i| usize::from(case.assign[i]) % ng).collect();
    let index_in_group: Vec<usize> = (0..n).map(|i| (0..i).filter(|j| group_of[*j] == group_of[i]).count()).collect();
    let c = case.clone();
    let go = group_of.clone();
    let ig = index_in_group.clone();

    let res: Result<Vec<Vec<String>>, Error> = simexec::run(&net, &cfg, |md| {
        Box::pin(async move {
            let assign = go.clone();

            let groups = md.init::<8, G20>(|| 0, G20::default(), |g, sd| Ok(&g.g[assign[usize::from(sd.configured_address() - 0x1000)]])).await?;

            let [g0, g1, g2] = groups.g;
            let mut ops: Vec<Option<OpG>> = Vec::new();

            for g in [g0, g1, g2] {
                ops.push(g.into_op(md).await.ok());
            }

            let futs: Vec<BoxFut<'_, Vec<String>>> = c
                .tasks
                .iter()
                .enumerate()
                .filter(|(i, _)| only.map(|o| o == *i).unwrap_or(true))
                .map(|(_, t)| task_fut(md, &ops, &go, &ig, t, c.seed))
                .collect();

            Ok(Scheduled::new(futs, c.choices.clone()).await)
        })
    })
    .map_err(|e| sim_fail("C20", e))?;

    let net = net.borrow();

    // overlap / reordering as measured by the executor
    let overlap = net.stats.max_in_flight >= 2;
    let reordered = net.stats.overtakes >= 1;

    Ok(res.map(|logs| RunOut {
        logs,
        mems: net
            .devices
            .iter()
            .map(|d| {
                let mut outs = Vec::new();

                for (_, start, len, w) in d.expected_pd_sms() {
                    if w {
                        outs.extend_from_slice(&d.mem[usize::from(start)..usize::from(start) + usize::from(len)]);
                    }
                }

                (outs, d.mem[usize::from(SCRATCH)..usize::from(SCRATCH) + 32].to_vec())
            })
            .collect(),
        overlap,
        reordered,
    }))
}

pub fn run_c20(case: &C20Case, info: &mut CaseInfo) -> Result<(), Fail> {
    let all = match c20_run(case, None)? {
        Ok(o) => o,
        Err(e) => fail!("C20|harness-init", "setting up the healthy segment failed: {e:?}"),
    };

    info.count("tasks", case.tasks.len() as u64);
    info.nontrivial = all.overlap && all.reordered;

    if all.reordered {
        info.label("responses-out-of-send-order");
    }

    info.label(if case.ample { "ample-storage" } else if case.too_small { "storage-too-small-negative-control" } else { "just-enough-storage" });

    for t in &case.tasks {
        info.label(match t {
            Task::Cycle { .. } => "task-cycle",
            Task::Device { .. } => "task-device",
        });
    }

    for (i, t) in case.tasks.iter().enumerate() {
        let solo = match c20_run(case, Some(i))? {
            Ok(o) => o,
            Err(e) => fail!("C20|harness-init", "setting up the healthy segment failed: {e:?}"),
        };

        let what = match t {
            Task::Cycle { .. } => "cycle",
            Task::Device { .. } => "device",
        };

        // operation by operation
        let mut starved = false;

        for (k, (a, b)) in all.logs[i].iter().zip(solo.logs[0].iter()).enumerate() {
            // with too little storage an operation may fail to get a frame; from then on the
            // task's history is a different one
            if case.too_small && a != b && a.contains("SwapState") {
                info.label("allocation-failure-with-too-little-storage");
                starved = true;

                break;
            }

            ensure!(
                a == b,
                format!("C20|result-differs|{what}"),
                "task {i} ({t:?}), operation {k}: alone it yields `{b}`, next to the other tasks ({:?}) it yields `{a}`",
                case.tasks.iter().enumerate().filter(|(j, _)| *j != i).map(|(_, t)| t).collect::<Vec<_>>()
            );
        }

        if starved {
            continue;
        }

        ensure!(all.logs[i].len() == solo.logs[0].len(), format!("C20|result-differs|{what}"), "task {i}: {} operations logged alone, {} next to the others", solo.logs[0].len(), all.logs[i].len());

        // what the task left in its devices
        match t {
            Task::Cycle { group, .. } => {
                for d in 0..case.devices.len() {
                    if usize::from(case.assign[d]) % usize::from(case.ngroups) == usize::from(*group) {
                        ensure!(
                            all.mems[d].0 == solo.mems[d].0,
                            "C20|process-memory-differs",
                            "device {d} (group {group}): after the concurrent run its output memory differs from the run in which only task {i} cycled the group"
                        );
                    }
                }
            }
            Task::Device { dev, .. } => {
                let d = usize::from(*dev);

                ensure!(all.mems[d].1 == solo.mems[d].1, "C20|register-memory-differs", "device {d}: scratch registers after the concurrent run {} differ from the solo run {}", hex(&all.mems[d].1), hex(&solo.mems[d].1));
            }
        }
    }

    Ok(())
}
