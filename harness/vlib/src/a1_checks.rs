//! Check drivers for the properties served by the A1 interpreter (C01, C03, C05, C06).

use crate::{
    core::*,
    pdusim::{self, profiles, strategy},
};

const ASSUME_A1: &str = "sequential interleavings only in this part (every op is atomic); yield-level schedules are explored by the A2 engine";
const ASSUME_MODEL: &str = "reference model of requests/slots in harness/vlib/src/pdusim.rs mirrors the documented life cycle; slot states are read through the verif-hooks inspectors";
const ASSUME_CLOCK: &str = "time is a virtual embassy-time driver owned by the harness (ethercrab built without std)";

pub fn replay(property: &'static str, path: &std::path::Path) -> ! {
    let kind = replay_kind(path);

    let res = match kind.as_str() {
        k if k.starts_with("a2-") => crate::a2_checks::replay(property, path, property == "C06"),
        _ => {
            let (_k, case): (String, pdusim::Case) = load_replay(path);
            let mut info = CaseInfo::default();

            pdusim::run_for(property, &case, &mut info).map(|_| ())
        }
    };

    finish_replay(property, path, res)
}

pub fn c01(mut check: Check) -> ! {
    let tier = check.tier();

    check.rule = "case = (storage config, phases of ops on up to 4 request handles: start/poll/tx/deliver/drop/read-view/trim); non-trivial = responses completed out of allocation order, or a slot re-allocated while a view of its previous response is held, or a front trim with 0 < k <= len; distinct by hash of the case".into();
    check.assumptions = vec![ASSUME_A1.into(), ASSUME_MODEL.into(), ASSUME_CLOCK.into(), "no deadline expires for observed requests (timeouts >= 1000 s virtual, advances <= 1 %)".into()];

    regressions(&mut check);

    check.run_prop("a1-history", 16, tier.pick(8_000, 100_000), || strategy::case(profiles::c01(tier)), pdusim::prop_closure("C01"));
    check.run_prop("a1-history-wrap", 16, tier.pick(1_500, 30_000), || strategy::case(profiles::c01_wrap(tier)), pdusim::prop_closure("C01"));

    // Yield-level schedules (engine A2)
    crate::a2_checks::regressions(&mut check, false);
    crate::a2_checks::explore(&mut check, "1slot-2tasks", &crate::a2_checks::fixed_scenario(1, 2, 1), tier.pick(2, 3), false, tier.pick(100_000, 3_000_000));
    crate::a2_checks::explore(&mut check, "2slots-2tasks", &crate::a2_checks::fixed_scenario(2, 2, 2), tier.pick(1, 2), false, tier.pick(100_000, 3_000_000));
    crate::a2_checks::run_random(&mut check, "a2-random", tier.pick(1_000, 30_000), false);

    check.finish()
}

pub fn c03(mut check: Check) -> ! {
    let tier = check.tier();

    check.rule = "case = (storage config, up to 3 phases of ops incl. send failures, lost/duplicate/garbage responses, expiries, retries, drops in every state, reset) each followed by a drain-and-reallocate probe; non-trivial = at least two different error paths hit the same slot; distinct by hash of the case".into();
    check.assumptions = vec![ASSUME_A1.into(), ASSUME_MODEL.into(), ASSUME_CLOCK.into(), "abandonment/expiry while the transmit side holds the frame is excluded (C06 window)".into()];

    regressions(&mut check);

    check.run_prop("a1-history", 16, tier.pick(15_000, 200_000), || strategy::case(profiles::c03(tier)), pdusim::prop_closure("C03"));

    check.finish()
}

pub fn c05(mut check: Check) -> ! {
    let tier = check.tier();

    check.rule = "case = a history that puts 1..4 slots into a combination of states, with arbitrary / structure-aware mutated frames delivered along the way; non-trivial = a delivered frame passes the EtherType/source filter and carries a first index equal to some slot's recorded index, or is truncated inside a header; distinct by hash of the case".into();
    check.assumptions = vec![ASSUME_A1.into(), ASSUME_MODEL.into(), "a frame addressed to an awaiting request that is rejected half-way may touch that one slot (judgement recorded in DESIGN.md C05); counted in counters.matched_slot_touched_on_reject".into()];

    regressions(&mut check);

    check.run_prop("a1-history", 16, tier.pick(15_000, 200_000), || strategy::case(profiles::c05(tier)), pdusim::prop_closure("C05"));

    check.finish()
}

pub fn c06(mut check: Check) -> ! {
    let tier = check.tier();

    check.rule = "case = history under the virtual clock with retry policies None/Count(0..3)/Forever, lost transmissions, advances of 20..120 % of the timeout, drops; non-trivial = a retry was actually retransmitted, or a request timed out, or a response was already received when an expired deadline was examined; distinct by hash of the case".into();
    check.assumptions = vec![ASSUME_A1.into(), ASSUME_MODEL.into(), ASSUME_CLOCK.into()];

    regressions(&mut check);

    check.run_prop("a1-history", 16, tier.pick(8_000, 100_000), || strategy::case(profiles::c06(tier, false, false)), pdusim::prop_closure("C06"));
    check.run_prop("a1-history-retry-in-tx", 16, tier.pick(5_000, 60_000), || strategy::case(profiles::c06(tier, true, false)), pdusim::prop_closure("C06"));
    check.run_prop("a1-history-abandon-in-tx", 16, tier.pick(500, 10_000), || strategy::case(profiles::c06(tier, true, true)), pdusim::prop_closure("C06"));

    // Yield-level schedules (engine A2): the clock is moved / the request abandoned at every
    // yield point of the transmit and receive paths in turn, with a competitor for the slot.
    crate::a2_checks::regressions(&mut check, true);

    for (name, sc) in crate::a2_checks::c06_scenarios() {
        crate::a2_checks::explore(&mut check, name, &sc, tier.pick(2, 3), true, tier.pick(40_000, 1_500_000));
    }

    crate::a2_checks::run_random(&mut check, "a2-random", tier.pick(1_000, 30_000), true);

    check.finish()
}

/// Replay every committed regression case of this property (`/verif/replays/<id>/*.json`, except
/// run-time `violation-*` files) through the same oracle.
pub fn regressions(check: &mut Check) {
    let dir = std::path::PathBuf::from(VERIF_ROOT).join("replays").join(check.property);

    let Ok(rd) = std::fs::read_dir(&dir) else {
        return;
    };

    let mut files: Vec<_> = rd
        .filter_map(|e| e.ok().map(|e| e.path()))
        .filter(|p| {
            p.extension().map(|e| e == "json").unwrap_or(false)
                && !p.file_name().unwrap().to_string_lossy().starts_with("violation-")
        })
        .collect();

    files.sort();

    let property = check.property;
    let mut n = 0u64;

    for path in files {
        let kind = replay_kind(&path);

        if !kind.starts_with("a1-") {
            continue;
        }

        let (_k, case): (String, pdusim::Case) = load_replay(&path);
        let mut info = CaseInfo::default();
        let res = pdusim::prop_closure(property)(&case, &mut info);

        info.label("regression-replay");

        check.record_case(&kind, &serde_json::to_value(&case).unwrap(), &info, res);

        n += 1;
    }

    check.coverage("regression_replays", serde_json::json!(n));
}
