//! Deterministic single-threaded executor that runs ethercrab futures against a simulated
//! segment under the virtual clock.

use crate::{simnet::Network, storage::make_storage, util::CountWaker, vclock};
use ethercrab::{MainDevice, MainDeviceConfig, RetryBehaviour, Timeouts};
use std::{
    cell::RefCell,
    future::Future,
    pin::Pin,
    rc::Rc,
    task::{Context, Poll},
    time::Duration,
};

#[derive(Clone, Debug)]
pub struct SimConfig {
    pub slots: usize,
    pub frame_size: usize,
    pub timeouts: Timeouts,
    pub retry: RetryBehaviour,
    pub dc_static_sync_iterations: u32,
    /// Round trip time of a frame in µs (>= 1, otherwise polling loops spin in zero time)
    pub latency_us: u64,
    /// Give up (watchdog) after this many frames
    pub frame_budget: u64,
    /// Continue with the virtual clock as it stands (a second MainDevice on the same network)
    pub keep_clock: bool,
}

impl Default for SimConfig {
    fn default() -> Self {
        Self {
            slots: 16,
            frame_size: 1100,
            timeouts: Timeouts {
                state_transition: Duration::from_millis(20),
                pdu: Duration::from_micros(1000),
                eeprom: Duration::from_millis(5),
                wait_loop_delay: Duration::ZERO,
                mailbox_echo: Duration::from_millis(5),
                mailbox_response: Duration::from_millis(10),
            },
            retry: RetryBehaviour::None,
            dc_static_sync_iterations: 2,
            latency_us: 5,
            frame_budget: 2_000_000,
            keep_clock: false,
        }
    }
}

#[derive(Debug, Clone, PartialEq, Eq)]
pub enum SimError {
    /// The future is pending, nothing is on the wire and no timer is armed
    Stalled,
    /// Frame budget exhausted
    Watchdog,
    /// The MainDevice transmitted a malformed frame
    Malformed(String),
    NoStorage,
}

pub type NetHandle = Rc<RefCell<Network>>;

pub type BoxFut<'a, R> = Pin<Box<dyn Future<Output = R> + 'a>>;

/// Run `f` (which gets the MainDevice) to completion against `net`.
pub fn run<R>(net: &NetHandle, cfg: &SimConfig, f: impl for<'a> FnOnce(&'a MainDevice<'a>) -> BoxFut<'a, R>) -> Result<R, SimError> {
    let storage = make_storage(cfg.slots, cfg.frame_size).ok_or(SimError::NoStorage)?;
    let (mut tx, mut rx, pdu_loop) = storage.split();

    if !cfg.keep_clock {
        vclock::reset();
    }

    net.borrow_mut().max_frame = cfg.frame_size;

    let maindevice = MainDevice::new(
        pdu_loop,
        cfg.timeouts,
        MainDeviceConfig {
            dc_static_sync_iterations: cfg.dc_static_sync_iterations,
            retry_behaviour: cfg.retry,
        },
    );

    let md: &MainDevice<'_> = &maindevice;
    let mut fut = f(md);

    let cw = CountWaker::new();
    let waker = crate::util::waker_of(&cw);

    // Frames in flight: (delivery time, bytes)
    let mut in_flight: Vec<(u64, Vec<u8>)> = Vec::new();
    let mut frames = 0u64;

    loop {
        let mut cx = Context::from_waker(&waker);

        cw.take();

        if let Poll::Ready(r) = fut.as_mut().poll(&mut cx) {
            return Ok(r);
        }

        // Transmit everything that is ready
        while let Some(frame) = tx.next_sendable_frame() {
            let mut bytes = Vec::new();

            let _ = frame.send_blocking(|b| {
                bytes = b.to_vec();

                Ok(b.len())
            });

            frames += 1;

            if frames > cfg.frame_budget {
                return Err(SimError::Watchdog);
            }

            let now = vclock::now();
            // Global time in ns for the simulator's clocks
            let resp = net.borrow_mut().process(&bytes, now * 1000);

            if let Some(m) = net.borrow().stats.malformed.clone() {
                return Err(SimError::Malformed(m));
            }

            if let Some(resp) = resp {
                in_flight.push((now + cfg.latency_us.max(1), resp));
            }
        }

        if cw.count() > 0 {
            // woken during transmit (e.g. timer already due)
            continue;
        }

        // Next event: earliest frame delivery or timer
        let next_frame = in_flight.iter().map(|(t, _)| *t).min();
        let next_timer = vclock::next_deadline();

        match (next_frame, next_timer) {
            (None, None) => return Err(SimError::Stalled),
            (Some(tf), tt) if tt.map(|tt| tf <= tt).unwrap_or(true) => {
                vclock::advance_to(tf);

                let i = in_flight.iter().position(|(t, _)| *t == tf).unwrap();
                let (_, bytes) = in_flight.remove(i);
                let _ = rx.receive_frame(&bytes);
            }
            (_, Some(tt)) => vclock::advance_to(tt),
            _ => unreachable!(),
        }
    }
}
