//! Deterministic single-threaded executor that runs ethercrab futures against a simulated
//! segment under the virtual clock.

use crate::{simnet::Network, storage::make_storage, util::CountWaker, vclock};
use ethercrab::{MainDevice, MainDeviceConfig, RetryBehaviour, Timeouts};
use std::{
    cell::RefCell,
    future::Future,
    pin::Pin,
    rc::Rc,
    task::{Context, Poll},
    time::Duration,
};

#[derive(Clone, Debug)]
pub struct SimConfig {
    pub slots: usize,
    pub frame_size: usize,
    pub timeouts: Timeouts,
    pub retry: RetryBehaviour,
    pub dc_static_sync_iterations: u32,
    /// Round trip time of a frame in µs (>= 1, otherwise polling loops spin in zero time)
    pub latency_us: u64,
    /// Give up (watchdog) after this many frames
    pub frame_budget: u64,
    /// Continue with the virtual clock as it stands (a second MainDevice on the same network)
    pub keep_clock: bool,
    /// Round trip time of frame k is `latencies[k % len]` us when non-empty (responses then
    /// arrive out of send order)
    pub latencies: Vec<u64>,
}

impl Default for SimConfig {
    fn default() -> Self {
        Self {
            slots: 16,
            frame_size: 1100,
            timeouts: Timeouts {
                state_transition: Duration::from_millis(20),
                pdu: Duration::from_micros(1000),
                eeprom: Duration::from_millis(5),
                wait_loop_delay: Duration::ZERO,
                mailbox_echo: Duration::from_millis(5),
                mailbox_response: Duration::from_millis(10),
            },
            retry: RetryBehaviour::None,
            dc_static_sync_iterations: 2,
            latency_us: 5,
            frame_budget: 2_000_000,
            keep_clock: false,
            latencies: Vec::new(),
        }
    }
}

#[derive(Debug, Clone, PartialEq, Eq)]
pub enum SimError {
    /// The future is pending, nothing is on the wire and no timer is armed
    Stalled,
    /// Frame budget exhausted
    Watchdog,
    /// The MainDevice transmitted a malformed frame
    Malformed(String),
    NoStorage,
}

pub type NetHandle = Rc<RefCell<Network>>;

pub type BoxFut<'a, R> = Pin<Box<dyn Future<Output = R> + 'a>>;

/// Run `f` (which gets the MainDevice) to completion against `net`.
pub fn run<R>(net: &NetHandle, cfg: &SimConfig, f: impl for<'a> FnOnce(&'a MainDevice<'a>) -> BoxFut<'a, R>) -> Result<R, SimError> {
    let storage = make_storage(cfg.slots, cfg.frame_size).ok_or(SimError::NoStorage)?;
    let (mut tx, mut rx, pdu_loop) = storage.split();

    if !cfg.keep_clock {
        vclock::reset();
    }

    net.borrow_mut().max_frame = cfg.frame_size;

    let maindevice = MainDevice::new(
        pdu_loop,
        cfg.timeouts,
        MainDeviceConfig {
            dc_static_sync_iterations: cfg.dc_static_sync_iterations,
            retry_behaviour: cfg.retry,
        },
    );

    let md: &MainDevice<'_> = &maindevice;
    let mut fut = f(md);

    let cw = CountWaker::new();
    let waker = crate::util::waker_of(&cw);

    // Frames in flight: (delivery time, bytes), in send order
    let mut in_flight: Vec<(u64, Vec<u8>)> = Vec::new();
    let mut max_in_flight = 0usize;
    let mut overtakes = 0u64;
    let mut frames = 0u64;

    loop {
        let mut cx = Context::from_waker(&waker);

        cw.take();

        if let Poll::Ready(r) = fut.as_mut().poll(&mut cx) {
            return Ok(r);
        }

        // Transmit everything that is ready
        while let Some(frame) = tx.next_sendable_frame() {
            let mut bytes = Vec::new();

            let _ = frame.send_blocking(|b| {
                bytes = b.to_vec();

                Ok(b.len())
            });

            frames += 1;

            if frames > cfg.frame_budget {
                return Err(SimError::Watchdog);
            }

            let now = vclock::now();
            // Global time in ns for the simulator's clocks
            let resp = net.borrow_mut().process(&bytes, now * 1000);

            if let Some(m) = net.borrow().stats.malformed.clone() {
                return Err(SimError::Malformed(m));
            }

            if let Some(resp) = resp {
                let lat = if cfg.latencies.is_empty() { cfg.latency_us } else { cfg.latencies[(frames as usize - 1) % cfg.latencies.len()] };

                in_flight.push((now + lat.max(1), resp));
                max_in_flight = max_in_flight.max(in_flight.len());
                net.borrow_mut().stats.max_in_flight = max_in_flight;
            }
        }

        if cw.count() > 0 {
            // woken during transmit (e.g. timer already due)
            continue;
        }

        // Next event: earliest frame delivery or timer
        let next_frame = in_flight.iter().map(|(t, _)| *t).min();
        let next_timer = vclock::next_deadline();

        match (next_frame, next_timer) {
            (None, None) => return Err(SimError::Stalled),
            (Some(tf), tt) if tt.map(|tt| tf <= tt).unwrap_or(true) => {
                vclock::advance_to(tf);

                let i = in_flight.iter().position(|(t, _)| *t == tf).unwrap();

                if i > 0 {
                    // a frame sent earlier is still on its way
                    overtakes += 1;
                    net.borrow_mut().stats.overtakes = overtakes;
                }

                let (_, bytes) = in_flight.remove(i);
                let _ = rx.receive_frame(&bytes);
            }
            (_, Some(tt)) => vclock::advance_to(tt),
            _ => unreachable!(),
        }
    }
}


// ---------------------------------------------------------------------------------------------
// Several tasks on one MainDevice under a generated schedule
// ---------------------------------------------------------------------------------------------

struct ChildWaker {
    woken: std::sync::atomic::AtomicBool,
    parent: std::sync::Mutex<Option<std::task::Waker>>,
}

impl std::task::Wake for ChildWaker {
    fn wake(self: std::sync::Arc<Self>) {
        self.wake_by_ref();
    }

    fn wake_by_ref(self: &std::sync::Arc<Self>) {
        self.woken.store(true, std::sync::atomic::Ordering::SeqCst);

        if let Some(p) = self.parent.lock().unwrap().as_ref() {
            p.wake_by_ref();
        }
    }
}

/// Runs several futures as cooperative tasks. Each poll of this future polls exactly ONE runnable
/// task, chosen by the next element of `choices`; the executor transmits and delivers frames in
/// between, so the choice list is a schedule at await-point granularity.
pub struct Scheduled<'a, T> {
    tasks: Vec<Option<BoxFut<'a, T>>>,
    wakers: Vec<std::sync::Arc<ChildWaker>>,
    results: Vec<Option<T>>,
    choices: Vec<u8>,
    step: usize,
    /// Schedule actually taken (task index per step), for the evidence
    pub trace: Vec<u8>,
}

impl<'a, T> Scheduled<'a, T> {
    pub fn new(tasks: Vec<BoxFut<'a, T>>, choices: Vec<u8>) -> Self {
        let n = tasks.len();

        Self {
            tasks: tasks.into_iter().map(Some).collect(),
            wakers: (0..n).map(|_| std::sync::Arc::new(ChildWaker { woken: std::sync::atomic::AtomicBool::new(true), parent: std::sync::Mutex::new(None) })).collect(),
            results: (0..n).map(|_| None).collect(),
            choices,
            step: 0,
            trace: Vec::new(),
        }
    }
}

impl<T: Unpin> Future for Scheduled<'_, T> {
    type Output = Vec<T>;

    fn poll(mut self: Pin<&mut Self>, cx: &mut Context<'_>) -> Poll<Vec<T>> {
        use std::sync::atomic::Ordering::SeqCst;

        let this = &mut *self;

        for w in &this.wakers {
            *w.parent.lock().unwrap() = Some(cx.waker().clone());
        }

        let runnable: Vec<usize> = (0..this.tasks.len()).filter(|i| this.tasks[*i].is_some() && this.wakers[*i].woken.load(SeqCst)).collect();

        if !runnable.is_empty() {
            let c = if this.choices.is_empty() { 0 } else { usize::from(this.choices[this.step % this.choices.len()]) };
            let i = runnable[c % runnable.len()];

            this.step += 1;

            if this.trace.len() < 256 {
                this.trace.push(i as u8);
            }

            this.wakers[i].woken.store(false, SeqCst);

            let waker = std::task::Waker::from(this.wakers[i].clone());
            let mut ccx = Context::from_waker(&waker);

            if let Poll::Ready(r) = this.tasks[i].as_mut().unwrap().as_mut().poll(&mut ccx) {
                this.results[i] = Some(r);
                this.tasks[i] = None;
            }
        }

        if this.tasks.iter().all(|t| t.is_none()) {
            return Poll::Ready(this.results.iter_mut().map(|r| r.take().unwrap()).collect());
        }

        // other tasks still runnable: come back at once (after the executor moved frames)
        if (0..this.tasks.len()).any(|i| this.tasks[i].is_some() && this.wakers[i].woken.load(SeqCst)) {
            cx.waker().wake_by_ref();
        }

        Poll::Pending
    }
}
