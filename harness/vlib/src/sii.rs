//! Independent SII (SubDevice EEPROM) model and encoder, written from ETG.1000.6 §5.4 / ETG.2010,
//! plus an in-memory `EepromDataProvider` for the verif-hooks EEPROM façade.

use ethercrab::{
    error::Error,
    verif::EepromDataProvider,
};
use proptest::prelude::*;
use serde::{Deserialize, Serialize};
use std::{
    cell::{Cell, RefCell},
    rc::Rc,
};

pub const CAT_STRINGS: u16 = 10;
pub const CAT_GENERAL: u16 = 30;
pub const CAT_FMMU: u16 = 40;
pub const CAT_SYNCM: u16 = 41;
pub const CAT_FMMU_EX: u16 = 42;
pub const CAT_TXPDO: u16 = 50;
pub const CAT_RXPDO: u16 = 51;
pub const CAT_DC: u16 = 60;
pub const CAT_END: u16 = 0xffff;
pub const FIRST_CATEGORY_WORD: usize = 0x40;

#[derive(Serialize, Deserialize, Clone, Debug, PartialEq, Eq, Hash)]
pub struct GeneralDesc {
    pub group_idx: u8,
    pub img_idx: u8,
    pub order_idx: u8,
    pub name_idx: u8,
    /// CoE details, bits 0..5
    pub coe_details: u8,
    pub foe: bool,
    pub eoe: bool,
    /// Flags, bits 0..4
    pub flags: u8,
    pub ebus_current: i16,
    /// Bytes 14..32 of the category (ports, physical memory address, reserved) — carried verbatim,
    /// not compared.
    pub tail: Vec<u8>,
}

#[derive(Serialize, Deserialize, Clone, Debug, PartialEq, Eq, Hash)]
pub struct SmDesc {
    pub start: u16,
    pub len: u16,
    /// 0 = buffered (process data), 2 = mailbox
    pub mode: u8,
    /// 0 = MainDevice reads, 1 = MainDevice writes
    pub dir: u8,
    /// event / watchdog bits (3 bits)
    pub ctl_flags: u8,
    pub status: u8,
    /// enable byte, bits 0..3
    pub enable: u8,
    /// 0 unknown, 1 mbx out, 2 mbx in, 3 outputs, 4 inputs
    pub usage: u8,
}

impl SmDesc {
    pub fn control_byte(&self) -> u8 {
        (self.mode & 3) | ((self.dir & 3) << 2) | ((self.ctl_flags & 7) << 4)
    }

    /// The usage a reader recovers when the stored type is "unknown": from mode + direction.
    pub fn effective_usage(&self) -> u8 {
        if self.usage != 0 {
            self.usage
        } else {
            match (self.mode, self.dir) {
                (0, 0) => 4,
                (0, _) => 3,
                (_, 0) => 2,
                (_, _) => 1,
            }
        }
    }
}

#[derive(Serialize, Deserialize, Clone, Debug, PartialEq, Eq, Hash)]
pub struct PdoEntryDesc {
    pub index: u16,
    pub sub: u8,
    pub name_idx: u8,
    pub data_type: u8,
    pub bits: u8,
    pub flags: u16,
}

#[derive(Serialize, Deserialize, Clone, Debug, PartialEq, Eq, Hash)]
pub struct PdoDesc {
    pub index: u16,
    pub sm: u8,
    pub dc_sync: u8,
    pub name_idx: u8,
    pub flags: u16,
    pub entries: Vec<PdoEntryDesc>,
}

impl PdoDesc {
    pub fn bit_len(&self) -> u32 {
        self.entries.iter().map(|e| u32::from(e.bits)).sum()
    }
}

#[derive(Serialize, Deserialize, Clone, Debug, PartialEq, Eq, Hash)]
pub enum Category {
    Strings(Vec<Vec<u8>>),
    General(GeneralDesc),
    Fmmu(Vec<u8>),
    SyncM(Vec<SmDesc>),
    /// (op-only byte, sync manager, reserved byte)
    FmmuEx(Vec<(u8, u8, u8)>),
    TxPdo(Vec<PdoDesc>),
    RxPdo(Vec<PdoDesc>),
    /// Vendor / device specific / DC / data types…: opaque words
    Unknown { typ: u16, words: Vec<u16> },
}

impl Category {
    pub fn typ(&self) -> u16 {
        match self {
            Category::Strings(_) => CAT_STRINGS,
            Category::General(_) => CAT_GENERAL,
            Category::Fmmu(_) => CAT_FMMU,
            Category::SyncM(_) => CAT_SYNCM,
            Category::FmmuEx(_) => CAT_FMMU_EX,
            Category::TxPdo(_) => CAT_TXPDO,
            Category::RxPdo(_) => CAT_RXPDO,
            Category::Unknown { typ, .. } => *typ,
        }
    }

    pub fn data(&self) -> Vec<u8> {
        let mut d = Vec::new();

        match self {
            Category::Strings(strings) => {
                d.push(strings.len() as u8);

                for s in strings {
                    d.push(s.len() as u8);
                    d.extend_from_slice(s);
                }
            }
            Category::General(g) => {
                d.extend_from_slice(&[g.group_idx, g.img_idx, g.order_idx, g.name_idx, 0, g.coe_details, u8::from(g.foe), u8::from(g.eoe), 0, 0, 0, g.flags]);
                d.extend_from_slice(&g.ebus_current.to_le_bytes());
                d.extend_from_slice(&g.tail);
                d.resize(32, 0);
            }
            Category::Fmmu(u) => d.extend_from_slice(u),
            Category::SyncM(sms) => {
                for sm in sms {
                    d.extend_from_slice(&sm.start.to_le_bytes());
                    d.extend_from_slice(&sm.len.to_le_bytes());
                    d.push(sm.control_byte());
                    d.push(sm.status);
                    d.push(sm.enable);
                    d.push(sm.usage);
                }
            }
            Category::FmmuEx(v) => {
                for (a, sm, c) in v {
                    d.extend_from_slice(&[*a, *sm, *c]);
                }
            }
            Category::TxPdo(pdos) | Category::RxPdo(pdos) => {
                for p in pdos {
                    d.extend_from_slice(&p.index.to_le_bytes());
                    d.push(p.entries.len() as u8);
                    d.push(p.sm);
                    d.push(p.dc_sync);
                    d.push(p.name_idx);
                    d.extend_from_slice(&p.flags.to_le_bytes());

                    for e in &p.entries {
                        d.extend_from_slice(&e.index.to_le_bytes());
                        d.push(e.sub);
                        d.push(e.name_idx);
                        d.push(e.data_type);
                        d.push(e.bits);
                        d.extend_from_slice(&e.flags.to_le_bytes());
                    }
                }
            }
            Category::Unknown { words, .. } => {
                for w in words {
                    d.extend_from_slice(&w.to_le_bytes());
                }
            }
        }

        if d.len() % 2 == 1 {
            d.push(0);
        }

        d
    }
}

#[derive(Serialize, Deserialize, Clone, Debug, PartialEq, Eq, Hash)]
pub struct SiiDesc {
    /// Words 0..=3 (PDI control, PDI configuration, sync impulse length, PDI configuration 2)
    pub cfg: [u16; 4],
    pub alias: u16,
    /// Words 5, 6 (reserved)
    pub reserved: [u16; 2],
    pub vendor: u32,
    pub product: u32,
    pub revision: u32,
    pub serial: u32,
    /// Words 0x10..0x17 (delays, bootstrap mailbox)
    pub boot: [u16; 8],
    pub mbx_recv_off: u16,
    pub mbx_recv_size: u16,
    pub mbx_send_off: u16,
    pub mbx_send_size: u16,
    /// Mailbox protocols, bits 0..5
    pub mbx_protocols: u8,
    /// EEPROM size in KiBit minus one (word 0x3E); the image is (size_kbit_m1 + 1) * 128 bytes.
    pub size_kbit_m1: u16,
    pub version: u16,
    pub categories: Vec<Category>,
}

/// CRC-8, polynomial 0x07, initial value 0xFF, no reflection, no final XOR — bitwise.
pub fn crc8(data: &[u8]) -> u8 {
    let mut crc = 0xffu8;

    for b in data {
        crc ^= *b;

        for _ in 0..8 {
            crc = if crc & 0x80 != 0 { (crc << 1) ^ 0x07 } else { crc << 1 };
        }
    }

    crc
}

impl SiiDesc {
    /// Bytes occupied by header + categories + end marker.
    pub fn content_len(&self) -> usize {
        FIRST_CATEGORY_WORD * 2 + self.categories.iter().map(|c| 4 + c.data().len()).sum::<usize>() + 2
    }

    pub fn image_len(&self) -> usize {
        (usize::from(self.size_kbit_m1) + 1) * 128
    }

    pub fn find(&self, typ: u16) -> Option<&Category> {
        self.categories.iter().find(|c| c.typ() == typ)
    }

    pub fn strings(&self) -> Option<&Vec<Vec<u8>>> {
        match self.find(CAT_STRINGS) {
            Some(Category::Strings(s)) => Some(s),
            _ => None,
        }
    }

    pub fn general(&self) -> Option<&GeneralDesc> {
        match self.find(CAT_GENERAL) {
            Some(Category::General(g)) => Some(g),
            _ => None,
        }
    }

    /// Encode the EEPROM image.
    pub fn encode(&self) -> Vec<u8> {
        let mut words: Vec<u16> = vec![0; FIRST_CATEGORY_WORD];

        words[0..4].copy_from_slice(&self.cfg);
        words[4] = self.alias;
        words[5..7].copy_from_slice(&self.reserved);
        words[8] = self.vendor as u16;
        words[9] = (self.vendor >> 16) as u16;
        words[10] = self.product as u16;
        words[11] = (self.product >> 16) as u16;
        words[12] = self.revision as u16;
        words[13] = (self.revision >> 16) as u16;
        words[14] = self.serial as u16;
        words[15] = (self.serial >> 16) as u16;
        words[0x10..0x18].copy_from_slice(&self.boot);
        words[0x18] = self.mbx_recv_off;
        words[0x19] = self.mbx_recv_size;
        words[0x1a] = self.mbx_send_off;
        words[0x1b] = self.mbx_send_size;
        words[0x1c] = u16::from(self.mbx_protocols);
        words[0x3e] = self.size_kbit_m1;
        words[0x3f] = self.version;

        let mut bytes: Vec<u8> = words.iter().flat_map(|w| w.to_le_bytes()).collect();

        // Checksum over the first 14 bytes in the low byte of word 7
        let c = crc8(&bytes[0..14]);

        bytes[14] = c;
        bytes[15] = 0;

        for cat in &self.categories {
            let data = cat.data();

            bytes.extend_from_slice(&cat.typ().to_le_bytes());
            bytes.extend_from_slice(&((data.len() / 2) as u16).to_le_bytes());
            bytes.extend_from_slice(&data);
        }

        bytes.extend_from_slice(&CAT_END.to_le_bytes());

        let total = self.image_len();

        assert!(bytes.len() <= total, "content {} exceeds image {}", bytes.len(), total);

        bytes.resize(total, 0xff);

        bytes
    }
}

// ---------------------------------------------------------------------------------------------
// In-memory provider
// ---------------------------------------------------------------------------------------------

#[derive(Default)]
pub struct MemState {
    pub image: RefCell<Vec<u8>>,
    pub reads: Cell<u64>,
    pub read_budget: Cell<u64>,
    pub budget_exceeded: Cell<bool>,
    pub writes: RefCell<Vec<(u16, [u8; 2])>>,
    /// Highest byte offset ever served + 1
    pub max_served: Cell<usize>,
}

/// Serves 4 or 8 byte chunks out of a byte image; reads beyond the image return 0xFF bytes (as an
/// unpopulated address does). The word address wraps at 16 bits like the SII address register.
#[derive(Clone)]
pub struct MemProvider {
    pub st: Rc<MemState>,
    pub chunk: usize,
}

impl MemProvider {
    pub fn new(image: Vec<u8>, chunk: usize) -> Self {
        let st = MemState {
            image: RefCell::new(image),
            read_budget: Cell::new(u64::MAX),
            ..Default::default()
        };

        Self { st: Rc::new(st), chunk }
    }

    pub fn with_budget(self, budget: u64) -> Self {
        self.st.read_budget.set(budget);

        self
    }
}

impl EepromDataProvider for MemProvider {
    async fn read_chunk(&mut self, start_word: u16) -> Result<impl core::ops::Deref<Target = [u8]>, Error> {
        let st = &self.st;

        st.reads.set(st.reads.get() + 1);

        if st.reads.get() > st.read_budget.get() {
            st.budget_exceeded.set(true);

            return Err(Error::Timeout(ethercrab::error::TimeoutError::Eeprom));
        }

        let img = st.image.borrow();
        let start = usize::from(start_word) * 2;
        let mut out = vec![0xffu8; self.chunk];

        for (i, o) in out.iter_mut().enumerate() {
            if let Some(b) = img.get(start + i) {
                *o = *b;
            }
        }

        st.max_served.set(st.max_served.get().max(start + self.chunk));

        Ok(out)
    }

    async fn write_word(&mut self, start_word: u16, data: [u8; 2]) -> Result<(), Error> {
        let st = &self.st;

        st.writes.borrow_mut().push((start_word, data));

        let mut img = st.image.borrow_mut();
        let start = usize::from(start_word) * 2;

        if start + 2 <= img.len() {
            img[start..start + 2].copy_from_slice(&data);
        }

        Ok(())
    }

    async fn clear_errors(&self) -> Result<(), Error> {
        Ok(())
    }
}

// ---------------------------------------------------------------------------------------------
// Generators
// ---------------------------------------------------------------------------------------------

fn string_bytes() -> impl Strategy<Value = Vec<u8>> {
    prop_oneof![
        6 => prop::collection::vec(0x20u8..0x7f, 0..40),
        2 => prop::collection::vec(any::<u8>(), 0..40),
        1 => prop::collection::vec(prop_oneof![3 => 0x20u8..0x7f, 1 => Just(0u8), 1 => 0x80u8..=0xff], 0..=255),
        1 => prop::collection::vec(0x20u8..0x7f, 60..=70),
    ]
}

fn sm_desc() -> impl Strategy<Value = SmDesc> {
    (
        any::<u16>(),
        any::<u16>(),
        prop::sample::select(vec![0u8, 2]),
        0u8..2,
        0u8..8,
        any::<u8>(),
        0u8..16,
        0u8..5,
    )
        .prop_map(|(start, len, mode, dir, ctl_flags, status, enable, usage)| SmDesc {
            start,
            len,
            mode,
            dir,
            ctl_flags,
            status,
            enable,
            usage,
        })
}

fn pdo_desc(max_entries: usize, index_base: u16) -> impl Strategy<Value = PdoDesc> {
    (
        0u16..0x200,
        0u8..8,
        any::<u8>(),
        any::<u8>(),
        any::<u16>(),
        prop::collection::vec(
            (any::<u16>(), any::<u8>(), any::<u8>(), any::<u8>(), prop_oneof![3 => 1u8..=64, 1 => any::<u8>()], any::<u16>()).prop_map(
                |(index, sub, name_idx, data_type, bits, flags)| PdoEntryDesc {
                    index,
                    sub,
                    name_idx,
                    data_type,
                    bits,
                    flags,
                },
            ),
            0..=max_entries,
        ),
    )
        .prop_map(move |(i, sm, dc_sync, name_idx, flags, entries)| PdoDesc {
            index: index_base + i,
            sm,
            dc_sync,
            name_idx,
            flags,
            entries,
        })
}

fn category() -> impl Strategy<Value = Category> {
    prop_oneof![
        3 => prop::collection::vec(string_bytes(), 0..=12).prop_map(Category::Strings),
        1 => prop::collection::vec(prop::collection::vec(0x20u8..0x7f, 0..6), 30..=50).prop_map(Category::Strings),
        3 => (
            any::<u8>(), any::<u8>(), any::<u8>(), any::<u8>(), 0u8..64, any::<bool>(), any::<bool>(), 0u8..32, any::<i16>(),
            prop::collection::vec(any::<u8>(), 18)
        ).prop_map(|(group_idx, img_idx, order_idx, name_idx, coe_details, foe, eoe, flags, ebus_current, tail)| Category::General(GeneralDesc {
            group_idx, img_idx, order_idx, name_idx, coe_details, foe, eoe, flags, ebus_current, tail,
        })),
        2 => prop::collection::vec(prop::sample::select(vec![0u8, 1, 2, 3, 0xff]), 0..=16).prop_map(Category::Fmmu),
        2 => prop::collection::vec(sm_desc(), 0..=8).prop_map(Category::SyncM),
        1 => prop::collection::vec((any::<u8>(), 0u8..8, any::<u8>()), 0..=16).prop_map(Category::FmmuEx),
        2 => prop::collection::vec(pdo_desc(6, 0x1a00), 0..=8).prop_map(Category::TxPdo),
        2 => prop::collection::vec(pdo_desc(6, 0x1600), 0..=8).prop_map(Category::RxPdo),
        1 => prop::collection::vec(pdo_desc(40, 0x1a00), 10..=20).prop_map(Category::TxPdo),
        3 => (prop_oneof![Just(1u16), 2u16..10, Just(20u16), Just(43u16), Just(60u16), 0x1000u16..0xfffe, 61u16..0x1000], prop::collection::vec(any::<u16>(), 0..24))
            .prop_map(|(typ, words)| Category::Unknown { typ, words }),
    ]
}

/// A well-formed device description: every category type at most once, any order.
pub fn desc() -> impl Strategy<Value = SiiDesc> {
    (
        (any::<[u16; 4]>(), any::<u16>(), any::<[u16; 2]>(), any::<u32>(), any::<u32>(), any::<u32>(), any::<u32>(), any::<[u16; 8]>()),
        (any::<u16>(), any::<u16>(), any::<u16>(), any::<u16>(), 0u8..64, any::<u16>()),
        prop::collection::vec(category(), 0..=9),
        prop_oneof![Just(0u16), Just(1), Just(3), Just(7), Just(15), Just(31), Just(63), Just(127), Just(255), Just(510), Just(511), Just(1023), 0u16..64],
    )
        .prop_map(|((cfg, alias, reserved, vendor, product, revision, serial, boot), (ro, rs, so, ss, prot, version), cats, size_pref)| {
            let mut seen = std::collections::BTreeSet::new();
            let mut categories = Vec::new();

            for c in cats {
                // Type 0 (NOP) / End are not categories; recognised types at most once
                let t = c.typ();

                if t == 0 || t == CAT_END {
                    continue;
                }

                if seen.insert(t) {
                    categories.push(c);
                }
            }

            let mut d = SiiDesc {
                cfg,
                alias,
                reserved,
                vendor,
                product,
                revision,
                serial,
                boot,
                mbx_recv_off: ro,
                mbx_recv_size: rs,
                mbx_send_off: so,
                mbx_send_size: ss,
                mbx_protocols: prot,
                size_kbit_m1: 0,
                version,
                categories,
            };

            // Smallest legal size that holds the content, or the preferred one if larger
            let need = d.content_len().div_ceil(128).max(1) as u16 - 1;

            d.size_kbit_m1 = need.max(size_pref);

            d
        })
}
