//! Simulator-based checks (engine B): C09 …

use crate::{
    core::*,
    ensure, fail,
    simexec::{self, NetHandle, SimConfig, SimError},
    simgen::{self, DevKnobs},
    simnet::{self, DcKind, NetSpec, Network},
};
use ethercrab::{MainDevice, SubDeviceGroup, error::Error};
use proptest::prelude::*;
use serde::{Deserialize, Serialize};
use std::{cell::RefCell, rc::Rc};

pub fn normalise_name(s: &[u8]) -> String {
    s.iter().filter(|c| **c != 0).map(|c| if c.is_ascii() { *c as char } else { '?' }).collect()
}

fn sim_fail(property: &str, e: SimError) -> Fail {
    match e {
        SimError::Malformed(m) => Fail::new("C04|malformed-frame-on-wire", m),
        SimError::Watchdog => Fail::new("harness|watchdog", format!("{property}: frame budget exhausted")),
        SimError::Stalled => Fail::new(format!("{property}|stalled"), "the operation is pending but nothing is in flight and no timer is armed"),
        SimError::NoStorage => Fail::new("harness|no-storage", "storage ladder"),
    }
}

// ---------------------------------------------------------------------------------------------
// C09
// ---------------------------------------------------------------------------------------------

#[derive(Serialize, Deserialize, Clone, Debug, PartialEq, Eq, Hash)]
pub struct C09Case {
    pub devices: Vec<DevKnobs>,
    /// MAX_SUBDEVICES of init (2, 4, 8, 16)
    pub max: u8,
    /// Capacity of each of the three groups (1, 2, 4, 8, 16)
    pub group_cap: u8,
    /// Group (0..3) each device is assigned to
    pub assign: Vec<u8>,
    pub static_sync: u8,
    pub echo_only: bool,
}

pub fn c09_case() -> impl Strategy<Value = C09Case> {
    (prop::sample::select(vec![2u8, 4, 8, 16]), prop::sample::select(vec![1u8, 2, 4, 8, 16]), 0u8..4, prop::bool::weighted(0.05)).prop_flat_map(|(max, group_cap, static_sync, echo_only)| {
        let n_max = usize::from(max) + 2;

        (
            prop::collection::vec(simgen::knobs(simgen::KnobRanges { max_sms: 1, max_pdos: 2, max_entries: 2, ..Default::default() }), 0..=n_max),
            prop::collection::vec(0u8..3, n_max),
            prop_oneof![3 => Just(0u8), 1 => Just(1u8), 1 => Just(2u8)],
        )
            .prop_map(move |(devices, mut assign, spread)| {
                if spread == 0 {
                    assign.iter_mut().for_each(|a| *a = 0);
                }

                C09Case { devices, max, group_cap, assign, static_sync, echo_only }
            })
    })
}

pub const C09_RULE: &str = "case = (0..MAX+2 generated devices: stale station addresses incl. duplicates, 4/8 byte SII, with/without mailbox and DC, names up to 64 bytes; MAX in {2,4,8,16}; three groups of capacity {1..16} with a generated assignment); non-trivial = n >= 2 with a duplicate stale address, or n > capacity, or >= 2 groups used; distinct by hash of the case";

#[derive(Default)]
pub struct Groups<const C: usize> {
    pub g: [SubDeviceGroup<C, 256>; 3],
}

struct Found {
    addr: u16,
    name: String,
    identity: (u32, u32, u32, u32),
    alias: u16,
    dc: u8,
    group: usize,
}

fn dc_code(d: ethercrab::DcSupport) -> u8 {
    match d {
        ethercrab::DcSupport::None => 0,
        ethercrab::DcSupport::RefOnly => 1,
        ethercrab::DcSupport::Bits32 => 2,
        ethercrab::DcSupport::Bits64 => 3,
    }
}

fn dc_kind_code(d: DcKind) -> u8 {
    match d {
        DcKind::None => 0,
        DcKind::RefOnly => 1,
        DcKind::Bits32 => 2,
        DcKind::Bits64 => 3,
    }
}

async fn c09_init<const MAX: usize, const C: usize>(md: &MainDevice<'_>, assign: &[u8]) -> Result<Vec<Found>, Error> {
    let counter = std::cell::Cell::new(0usize);

    let groups = md
        .init::<MAX, Groups<C>>(
            || 1_000_000,
            Groups::default(),
            |g, _sd| {
                let i = counter.get();

                counter.set(i + 1);

                Ok(&g.g[usize::from(*assign.get(i).unwrap_or(&0)) % 3])
            },
        )
        .await?;

    let mut found = Vec::new();

    for (gi, g) in groups.g.iter().enumerate() {
        for sd in g.iter(md) {
            let id = sd.identity();

            found.push(Found {
                addr: sd.configured_address(),
                name: sd.name().to_string(),
                identity: (id.vendor_id, id.product_id, id.revision, id.serial),
                alias: sd.alias_address(),
                dc: dc_code(sd.dc_support()),
                group: gi,
            });
        }
    }

    Ok(found)
}

macro_rules! dispatch_c09 {
    ($max:expr, $cap:expr, $md:expr, $assign:expr; $( ($M:literal, $C:literal) ),*) => {
        match ($max, $cap) {
            $( ($M, $C) => c09_init::<$M, $C>($md, $assign).await, )*
            _ => unreachable!("unsupported (MAX, capacity)"),
        }
    };
}

pub fn run_c09(case: &C09Case, info: &mut CaseInfo) -> Result<(), Fail> {
    let upload = vec![];
    let spec: NetSpec = simgen::build_net(&case.devices, &[], &upload);
    let n = spec.devices.len();
    let mut network = Network::new(&spec);

    network.echo_only = case.echo_only;

    let net: NetHandle = Rc::new(RefCell::new(network));
    let cfg = SimConfig {
        dc_static_sync_iterations: u32::from(case.static_sync),
        ..Default::default()
    };

    let max = case.max;
    let cap = case.group_cap;
    let assign = case.assign.clone();

    let res = simexec::run(&net, &cfg, |md| {
        Box::pin(async move {
            dispatch_c09!(max, cap, md, &assign;
                (2, 1), (2, 2), (2, 4), (2, 8), (2, 16),
                (4, 1), (4, 2), (4, 4), (4, 8), (4, 16),
                (8, 1), (8, 2), (8, 4), (8, 8), (8, 16),
                (16, 1), (16, 2), (16, 4), (16, 8), (16, 16))
        })
    })
    .map_err(|e| sim_fail("C09", e))?;

    let net = net.borrow();
    let effective_n = if case.echo_only { 0 } else { n };

    // Expected outcome
    let mut per_group = [0usize; 3];

    for i in 0..effective_n {
        per_group[usize::from(case.assign[i]) % 3] += 1;
    }

    let too_many = effective_n > usize::from(case.max);
    let group_overflow = per_group.iter().any(|c| *c > usize::from(case.group_cap));
    let name_too_long = case.devices.iter().take(effective_n).any(|d| d.name.len() > 64);

    let dup_stale = {
        let mut a: Vec<u16> = case.devices.iter().map(|d| d.stale_addr).collect();

        a.sort();
        a.windows(2).any(|w| w[0] == w[1])
    };

    info.nontrivial = (effective_n >= 2 && dup_stale) || too_many || group_overflow || per_group.iter().filter(|c| **c > 0).count() >= 2;

    if dup_stale && effective_n >= 2 {
        info.label("duplicate-stale-addresses");
    }

    if too_many {
        info.label("more-devices-than-capacity");
    }

    if group_overflow {
        info.label("group-capacity-exceeded");
    }

    if effective_n == 0 {
        info.label("empty-network");
    }

    info.count("devices", effective_n as u64);
    info.count("frames", net.stats.frames);

    match res {
        Err(e) => {
            info.label("init-error");

            if too_many || group_overflow {
                ensure!(matches!(e, Error::Capacity(_)), "C09|wrong-error", "{effective_n} devices, MAX {}, group capacity {}: expected a capacity error, got {e:?}", case.max, case.group_cap);

                return Ok(());
            }

            if name_too_long {
                ensure!(matches!(e, Error::StringTooLong { .. }), "C09|wrong-error", "expected StringTooLong, got {e:?}");

                return Ok(());
            }

            fail!("C09|init-failed", "init of a healthy network of {effective_n} devices (MAX {}, capacity {}) failed: {e:?}", case.max, case.group_cap)
        }
        Ok(found) => {
            info.label("init-ok");

            ensure!(!too_many, "C09|silent-truncation", "{effective_n} devices with MAX {} initialised without an error ({} reported)", case.max, found.len());
            ensure!(!group_overflow, "C09|silent-truncation", "a group of capacity {} took {:?} devices without an error", case.group_cap, per_group);
            ensure!(found.len() == effective_n, "C09|wrong-count", "{} devices reported, {effective_n} on the network", found.len());

            for i in 0..effective_n {
                let dev = &net.devices[i];
                let want_addr = 0x1000 + i as u16;

                ensure!(dev.station_addr() == want_addr, "C09|station-address", "device at ring position {i} has station address {:#06x}, expected {want_addr:#06x}", dev.station_addr());
                ensure!(dev.al_state == simnet::AL_PREOP && !dev.al_error, "C09|not-preop", "device {i} is in AL state {} (error {}) after init", dev.al_state, dev.al_error);

                let hits: Vec<&Found> = found.iter().filter(|f| f.addr == want_addr).collect();

                ensure!(hits.len() == 1, "C09|not-exactly-once", "{} SubDevices report configured address {want_addr:#06x}", hits.len());

                let f = hits[0];
                let k = &case.devices[i];

                ensure!(f.identity == (k.vendor, k.product, k.revision, k.serial), "C09|identity", "device {i}: identity {:x?} recorded, device has {:x?}", f.identity, (k.vendor, k.product, k.revision, k.serial));
                ensure!(f.name == normalise_name(&k.name), "C09|name", "device {i}: name {:?} recorded, device has {:?}", f.name, normalise_name(&k.name));
                ensure!(f.alias == k.alias, "C09|alias", "device {i}: alias {:#x} recorded, device has {:#x}", f.alias, k.alias);
                ensure!(f.dc == dc_kind_code(k.dc), "C09|dc-capability", "device {i}: DC capability {} recorded, device has {:?}", f.dc, k.dc);
                ensure!(f.group == usize::from(case.assign[i]) % 3, "C09|group", "device {i} placed in group {}, filter named {}", f.group, case.assign[i] % 3);
            }

            Ok(())
        }
    }
}
