//! Simulator-based checks (engine B): C09 …

use crate::{
    core::*,
    ensure, fail,
    simexec::{self, NetHandle, SimConfig, SimError},
    simgen::{self, DevKnobs},
    simnet::{self, DcKind, NetSpec, Network},
};
use ethercrab::{MainDevice, SubDeviceGroup, error::Error};
use proptest::prelude::*;
use serde::{Deserialize, Serialize};
use std::{cell::RefCell, rc::Rc};

pub fn normalise_name(s: &[u8]) -> String {
    s.iter().filter(|c| **c != 0).map(|c| if c.is_ascii() { *c as char } else { '?' }).collect()
}

pub(crate) fn sim_fail(property: &str, e: SimError) -> Fail {
    match e {
        SimError::Malformed(m) => Fail::new("C04|malformed-frame-on-wire", m),
        SimError::Watchdog => Fail::new("harness|watchdog", format!("{property}: frame budget exhausted")),
        SimError::Stalled => Fail::new(format!("{property}|stalled"), "the operation is pending but nothing is in flight and no timer is armed"),
        SimError::NoStorage => Fail::new("harness|no-storage", "storage ladder"),
    }
}

// ---------------------------------------------------------------------------------------------
// C09
// ---------------------------------------------------------------------------------------------

#[derive(Serialize, Deserialize, Clone, Debug, PartialEq, Eq, Hash)]
pub struct C09Case {
    pub devices: Vec<DevKnobs>,
    /// MAX_SUBDEVICES of init (2, 4, 8, 16)
    pub max: u8,
    /// Capacity of each of the three groups (1, 2, 4, 8, 16)
    pub group_cap: u8,
    /// Group (0..3) each device is assigned to
    pub assign: Vec<u8>,
    pub static_sync: u8,
    pub echo_only: bool,
}

pub fn c09_case() -> impl Strategy<Value = C09Case> {
    (prop::sample::select(vec![2u8, 4, 8, 16]), prop::sample::select(vec![1u8, 2, 4, 8, 16]), 0u8..4, prop::bool::weighted(0.05)).prop_flat_map(|(max, group_cap, static_sync, echo_only)| {
        let n_max = usize::from(max) + 2;

        (
            prop::collection::vec(simgen::knobs(simgen::KnobRanges { max_sms: 1, max_pdos: 2, max_entries: 2, ..Default::default() }), 0..=n_max),
            prop::collection::vec(0u8..3, n_max),
            prop_oneof![3 => Just(0u8), 1 => Just(1u8), 1 => Just(2u8)],
            // racks of identical terminals: same model as the upstream neighbour, same name or
            // not, and devices without a name string
            prop::collection::vec((prop::bool::weighted(0.3), any::<bool>(), prop::bool::weighted(0.15)), n_max),
        )
            .prop_map(move |(mut devices, mut assign, spread, family)| {
                if spread == 0 {
                    assign.iter_mut().for_each(|a| *a = 0);
                }

                for i in 0..devices.len() {
                    let (same_model, same_name, unnamed) = family[i];

                    devices[i].unnamed = unnamed;

                    if same_model && i > 0 {
                        devices[i].vendor = devices[i - 1].vendor;
                        devices[i].product = devices[i - 1].product;
                        devices[i].revision = devices[i - 1].revision;

                        if same_name {
                            devices[i].name = devices[i - 1].name.clone();
                        }
                    }
                }

                C09Case { devices, max, group_cap, assign, static_sync, echo_only }
            })
    })
}

pub const C09_RULE: &str = "case = (0..MAX+2 generated devices: stale station addresses incl. duplicates, 4/8 byte SII, with/without mailbox and DC, names up to 64 bytes; MAX in {2,4,8,16}; three groups of capacity {1..16} with a generated assignment); non-trivial = n >= 2 with a duplicate stale address, or n > capacity, or >= 2 groups used; distinct by hash of the case";

#[derive(Default)]
pub struct Groups<const C: usize> {
    pub g: [SubDeviceGroup<C, 256>; 3],
}

struct Found {
    addr: u16,
    name: String,
    identity: (u32, u32, u32, u32),
    alias: u16,
    dc: u8,
    group: usize,
}

fn dc_code(d: ethercrab::DcSupport) -> u8 {
    match d {
        ethercrab::DcSupport::None => 0,
        ethercrab::DcSupport::RefOnly => 1,
        ethercrab::DcSupport::Bits32 => 2,
        ethercrab::DcSupport::Bits64 => 3,
    }
}

fn dc_kind_code(d: DcKind) -> u8 {
    match d {
        DcKind::None => 0,
        DcKind::RefOnly => 1,
        DcKind::Bits32 => 2,
        DcKind::Bits64 => 3,
    }
}

async fn c09_init<const MAX: usize, const C: usize>(md: &MainDevice<'_>, assign: &[u8]) -> Result<Vec<Found>, Error> {
    let counter = std::cell::Cell::new(0usize);

    let groups = md
        .init::<MAX, Groups<C>>(
            || 1_000_000,
            Groups::default(),
            |g, _sd| {
                let i = counter.get();

                counter.set(i + 1);

                Ok(&g.g[usize::from(*assign.get(i).unwrap_or(&0)) % 3])
            },
        )
        .await?;

    let mut found = Vec::new();

    for (gi, g) in groups.g.iter().enumerate() {
        for sd in g.iter(md) {
            let id = sd.identity();

            found.push(Found {
                addr: sd.configured_address(),
                name: sd.name().to_string(),
                identity: (id.vendor_id, id.product_id, id.revision, id.serial),
                alias: sd.alias_address(),
                dc: dc_code(sd.dc_support()),
                group: gi,
            });
        }
    }

    Ok(found)
}

macro_rules! dispatch_c09 {
    ($max:expr, $cap:expr, $md:expr, $assign:expr; $( ($M:literal, $C:literal) ),*) => {
        match ($max, $cap) {
            $( ($M, $C) => c09_init::<$M, $C>($md, $assign).await, )*
            _ => unreachable!("unsupported (MAX, capacity)"),
        }
    };
}

pub fn run_c09(case: &C09Case, info: &mut CaseInfo) -> Result<(), Fail> {
    let upload = vec![];
    let spec: NetSpec = simgen::build_net(&case.devices, &[], &upload);
    let n = spec.devices.len();
    let mut network = Network::new(&spec);

    network.echo_only = case.echo_only;

    let net: NetHandle = Rc::new(RefCell::new(network));
    let cfg = SimConfig {
        dc_static_sync_iterations: u32::from(case.static_sync),
        ..Default::default()
    };

    let max = case.max;
    let cap = case.group_cap;
    let assign = case.assign.clone();

    let res = simexec::run(&net, &cfg, |md| {
        Box::pin(async move {
            dispatch_c09!(max, cap, md, &assign;
                (2, 1), (2, 2), (2, 4), (2, 8), (2, 16),
                (4, 1), (4, 2), (4, 4), (4, 8), (4, 16),
                (8, 1), (8, 2), (8, 4), (8, 8), (8, 16),
                (16, 1), (16, 2), (16, 4), (16, 8), (16, 16))
        })
    })
    .map_err(|e| sim_fail("C09", e))?;

    let net = net.borrow();
    let effective_n = if case.echo_only { 0 } else { n };

    // Expected outcome
    let mut per_group = [0usize; 3];

    for i in 0..effective_n {
        per_group[usize::from(case.assign[i]) % 3] += 1;
    }

    let too_many = effective_n > usize::from(case.max);
    let group_overflow = per_group.iter().any(|c| *c > usize::from(case.group_cap));
    let name_too_long = case.devices.iter().take(effective_n).any(|d| !d.unnamed && d.name.len() > 64);

    let dup_stale = {
        let mut a: Vec<u16> = case.devices.iter().map(|d| d.stale_addr).collect();

        a.sort();
        a.windows(2).any(|w| w[0] == w[1])
    };

    info.nontrivial = (effective_n >= 2 && dup_stale) || too_many || group_overflow || per_group.iter().filter(|c| **c > 0).count() >= 2;

    if dup_stale && effective_n >= 2 {
        info.label("duplicate-stale-addresses");
    }

    if (1..effective_n).any(|i| {
        let (a, b) = (&case.devices[i - 1], &case.devices[i]);

        (a.vendor, a.product, a.revision) == (b.vendor, b.product, b.revision)
    }) {
        info.label("adjacent-devices-of-the-same-model");
    }

    if case.devices.iter().take(effective_n).any(|d| d.unnamed) {
        info.label("device-without-name-string");
    }

    if too_many {
        info.label("more-devices-than-capacity");
    }

    if group_overflow {
        info.label("group-capacity-exceeded");
    }

    if effective_n == 0 {
        info.label("empty-network");
    }

    info.count("devices", effective_n as u64);
    info.count("frames", net.stats.frames);

    match res {
        Err(e) => {
            info.label("init-error");

            if too_many || group_overflow {
                ensure!(matches!(e, Error::Capacity(_)), "C09|wrong-error", "{effective_n} devices, MAX {}, group capacity {}: expected a capacity error, got {e:?}", case.max, case.group_cap);

                return Ok(());
            }

            if name_too_long {
                ensure!(matches!(e, Error::StringTooLong { .. }), "C09|wrong-error", "expected StringTooLong, got {e:?}");

                return Ok(());
            }

            fail!("C09|init-failed", "init of a healthy network of {effective_n} devices (MAX {}, capacity {}) failed: {e:?}", case.max, case.group_cap)
        }
        Ok(found) => {
            info.label("init-ok");

            ensure!(!too_many, "C09|silent-truncation", "{effective_n} devices with MAX {} initialised without an error ({} reported)", case.max, found.len());
            ensure!(!group_overflow, "C09|silent-truncation", "a group of capacity {} took {:?} devices without an error", case.group_cap, per_group);
            ensure!(found.len() == effective_n, "C09|wrong-count", "{} devices reported, {effective_n} on the network", found.len());

            for i in 0..effective_n {
                let dev = &net.devices[i];
                let want_addr = 0x1000 + i as u16;

                ensure!(dev.station_addr() == want_addr, "C09|station-address", "device at ring position {i} has station address {:#06x}, expected {want_addr:#06x}", dev.station_addr());
                ensure!(dev.al_state == simnet::AL_PREOP && !dev.al_error, "C09|not-preop", "device {i} is in AL state {} (error {}) after init", dev.al_state, dev.al_error);

                let hits: Vec<&Found> = found.iter().filter(|f| f.addr == want_addr).collect();

                ensure!(hits.len() == 1, "C09|not-exactly-once", "{} SubDevices report configured address {want_addr:#06x}", hits.len());

                let f = hits[0];
                let k = &case.devices[i];

                ensure!(f.identity == (k.vendor, k.product, k.revision, k.serial), "C09|identity", "device {i}: identity {:x?} recorded, device has {:x?}", f.identity, (k.vendor, k.product, k.revision, k.serial));
                // A device without a name string gets a made-up name whose wording is the
                // MainDevice's business; it must at least not be another device's name string
                if k.unnamed {
                    let foreign = case.devices.iter().take(effective_n).any(|o| !o.unnamed && !o.name.is_empty() && f.name == normalise_name(&o.name));

                    ensure!(!foreign, "C09|name", "device {i} has no name string, but was recorded with another device's name {:?}", f.name);
                } else {
                    let want_name = normalise_name(&k.name);

                    ensure!(f.name == want_name, "C09|name", "device {i}: name {:?} recorded, device has {:?}", f.name, want_name);
                }
                ensure!(f.alias == k.alias, "C09|alias", "device {i}: alias {:#x} recorded, device has {:#x}", f.alias, k.alias);
                ensure!(f.dc == dc_kind_code(k.dc), "C09|dc-capability", "device {i}: DC capability {} recorded, device has {:?}", f.dc, k.dc);
                ensure!(f.group == usize::from(case.assign[i]) % 3, "C09|group", "device {i} placed in group {}, filter named {}", f.group, case.assign[i] % 3);
            }

            Ok(())
        }
    }
}

// ---------------------------------------------------------------------------------------------
// C11 — primitives
// ---------------------------------------------------------------------------------------------

#[derive(Serialize, Deserialize, Clone, Copy, Debug, PartialEq, Eq, Hash)]
pub enum Expect {
    Default,
    With(u16),
    Ignore,
}

#[derive(Serialize, Deserialize, Clone, Copy, Debug, PartialEq, Eq, Hash)]
pub enum Addressing {
    /// FPxx to station address 0x2000 (held by `responders` devices)
    Fixed,
    /// APxx to ring position `pos`
    Position(u8),
    /// Bxx
    Broadcast,
}

#[derive(Serialize, Deserialize, Clone, Copy, Debug, PartialEq, Eq, Hash)]
pub enum PrimOp {
    Receive,
    ReceiveSlice,
    SendReceive,
    SendReceiveSlice,
}

#[derive(Serialize, Deserialize, Clone, Debug, PartialEq, Eq, Hash)]
pub struct C11Prim {
    pub devices: u8,
    /// How many devices hold the addressed station address
    pub responders: u8,
    pub addressing: Addressing,
    pub op: PrimOp,
    pub expect: Expect,
    /// Wire fault: added to the working counter on the way back
    pub wkc_delta: i8,
    pub len: u8,
    pub seed: u64,
}

pub fn c11_prim() -> impl Strategy<Value = C11Prim> {
    (
        1u8..=4,
        0u8..=3,
        prop_oneof![3 => Just(Addressing::Fixed), 1 => (0u8..5).prop_map(Addressing::Position), 1 => Just(Addressing::Broadcast)],
        prop_oneof![Just(PrimOp::Receive), Just(PrimOp::ReceiveSlice), Just(PrimOp::SendReceive), Just(PrimOp::SendReceiveSlice)],
        prop_oneof![3 => Just(Expect::Default), 3 => (0u16..4).prop_map(Expect::With), 1 => Just(Expect::Ignore)],
        prop_oneof![4 => Just(0i8), 1 => Just(1i8), 1 => Just(-1i8)],
        1u8..=16,
        any::<u64>(),
    )
        .prop_map(|(devices, responders, addressing, op, expect, wkc_delta, len, seed)| C11Prim {
            devices,
            responders: responders.min(devices),
            addressing,
            op,
            expect,
            wkc_delta,
            len,
            seed,
        })
}

pub const C11_RULE: &str = "primitive cases = (1..4 devices, 0..3 of them answering the addressed station address / position / broadcast, receive | receive_slice | send_receive | send_receive_slice, expected count default | with_wkc(0..3) | ignore_wkc, wire-altered counter); composite cases = EEPROM read, SDO read/write, state request against a device absent throughout or dropping out at datagram k; non-trivial = a configured expectation differs from the count received, or a dropout strictly inside a multi-datagram operation; distinct by hash of the case";

fn plain_device(station: u16, seed: u64) -> simnet::DeviceSpec {
    let k = DevKnobs {
        name: b"DEV".to_vec(),
        long_name: b"Device".to_vec(),
        vendor: 1,
        product: 2,
        revision: 3,
        serial: 4,
        alias: 0,
        stale_addr: station,
        mailbox: false,
        coe: false,
        mbx_size: 32,
        out_sms: vec![],
        in_sms: vec![],
        fmmu_ex: false,
        dc: DcKind::None,
        chunk8: false,
        sii_busy_polls: 0,
        strict: false,
        unknown_cats: 0,
        input_seed: seed,
        clock_offset: 0,
        link_delay: 100,
        down_ports: 1,
        complete_access: false,
        oversampling: vec![],
        noncontig: false,
        unnamed: false,
    };

    k.build(None, [true, true, false, false], simgen::accept_all(), simnet::UploadPolicy::Auto, vec![])
}

const C11_REG: u16 = 0x1200;

pub fn run_c11_prim(case: &C11Prim, info: &mut CaseInfo) -> Result<(), Fail> {
    use ethercrab::Command;

    let n = usize::from(case.devices);
    let spec = NetSpec {
        devices: (0..n)
            .map(|i| {
                let mut d = plain_device(if i < usize::from(case.responders) { 0x2000 } else { 0x3000 + i as u16 }, case.seed + i as u64);

                d.parent = if i == 0 { None } else { Some(i - 1) };

                d
            })
            .collect(),
    };

    let mut network = Network::new(&spec);
    let len = usize::from(case.len);

    // Distinct memory content per device
    for (i, d) in network.devices.iter_mut().enumerate() {
        let bytes = crate::util::bytes_from_seed(case.seed ^ (i as u64 * 977), len);

        d.mem[usize::from(C11_REG)..usize::from(C11_REG) + len].copy_from_slice(&bytes);
    }

    let before: Vec<Vec<u8>> = network.devices.iter().map(|d| d.mem[usize::from(C11_REG)..usize::from(C11_REG) + len].to_vec()).collect();

    if case.wkc_delta != 0 {
        network.wkc_fault = Some((1, i32::from(case.wkc_delta)));
    }

    // Ground truth: who services the datagram
    let servicing: Vec<usize> = match case.addressing {
        Addressing::Fixed => (0..usize::from(case.responders)).collect(),
        Addressing::Position(p) => (0..n).filter(|i| *i == usize::from(p)).collect(),
        Addressing::Broadcast => (0..n).collect(),
    };

    let is_write = matches!(case.op, PrimOp::SendReceive | PrimOp::SendReceiveSlice);
    let true_wkc = servicing.len() as i32;
    let received = (true_wkc + i32::from(case.wkc_delta)) as u16;
    let payload = crate::util::bytes_from_seed(case.seed ^ 0xabcdef, len);

    let net: NetHandle = Rc::new(RefCell::new(network));
    let cfg = SimConfig::default();
    let c = case.clone();
    let payload2 = payload.clone();

    let res: Result<Vec<u8>, Error> = simexec::run(&net, &cfg, |md| {
        Box::pin(async move {
            let apply_r = |r: ethercrab::WrappedRead| match c.expect {
                Expect::Default => r,
                Expect::With(k) => r.with_wkc(k),
                Expect::Ignore => r.ignore_wkc(),
            };
            let apply_w = |w: ethercrab::WrappedWrite| match c.expect {
                Expect::Default => w,
                Expect::With(k) => w.with_wkc(k),
                Expect::Ignore => w.ignore_wkc(),
            };

            let rd = match c.addressing {
                Addressing::Fixed => Command::fprd(0x2000, C11_REG),
                Addressing::Position(p) => Command::aprd(u16::from(p), C11_REG),
                Addressing::Broadcast => Command::brd(C11_REG),
            };
            let wr = match c.addressing {
                Addressing::Fixed => Command::fpwr(0x2000, C11_REG),
                Addressing::Position(p) => Command::apwr(u16::from(p), C11_REG),
                Addressing::Broadcast => Command::bwr(C11_REG),
            };

            match c.op {
                PrimOp::Receive => {
                    // fixed size types by length class
                    match c.len {
                        1 => apply_r(rd).receive::<u8>(md).await.map(|v| vec![v]),
                        2 | 3 => apply_r(rd).receive::<u16>(md).await.map(|v| v.to_le_bytes().to_vec()),
                        4..=7 => apply_r(rd).receive::<u32>(md).await.map(|v| v.to_le_bytes().to_vec()),
                        _ => apply_r(rd).receive::<u64>(md).await.map(|v| v.to_le_bytes().to_vec()),
                    }
                }
                PrimOp::ReceiveSlice => apply_r(rd).receive_slice(md, u16::from(c.len)).await.map(|p| p.to_vec()),
                PrimOp::SendReceive => match c.len {
                    1 => apply_w(wr).send_receive::<u8>(md, payload2[0]).await.map(|v| vec![v]),
                    _ => apply_w(wr).send_receive::<[u8; 2]>(md, [payload2[0], *payload2.get(1).unwrap_or(&0)]).await.map(|v| v.to_vec()),
                },
                PrimOp::SendReceiveSlice => apply_w(wr).send_receive_slice(md, &payload2[..]).await.map(|p| p.to_vec()),
            }
        })
    })
    .map_err(|e| sim_fail("C11", e))?;

    let expected_count = match case.expect {
        Expect::Default => Some(1u16),
        Expect::With(k) => Some(k),
        Expect::Ignore => None,
    };

    let mismatch = expected_count.map(|e| e != received).unwrap_or(false);

    info.nontrivial = mismatch;

    if mismatch {
        info.label("count-mismatch");
    }

    if servicing.is_empty() {
        info.label("nobody-answers");
    }

    info.label(format!("{:?}", case.op));

    let entry = format!("{:?}", case.op);

    match (&res, mismatch) {
        (Err(Error::WorkingCounter { expected, received: r }), true) => {
            ensure!(
                Some(*expected) == expected_count && *r == received,
                format!("C11|wrong-counts|{entry}"),
                "error carries expected {expected} received {r}; configured {expected_count:?}, the wire returned {received}"
            );
        }
        (Ok(data), true) => fail!(
            format!("C11|unchecked|{entry}"),
            "{:?} with expectation {:?}: {} device(s) serviced the datagram (counter {received}) but the call returned Ok({})",
            case.op,
            case.expect,
            servicing.len(),
            crate::util::hex(data)
        ),
        (Err(e), true) => fail!(format!("C11|wrong-error|{entry}"), "expected a working counter error, got {e:?}"),
        (Err(e), false) => fail!(format!("C11|spurious-error|{entry}"), "counter {received} matches the expectation {expected_count:?} but the call failed: {e:?}"),
        (Ok(data), false) => {
            // Returned bytes: what the network returned
            let net = net.borrow();

            let want: Vec<u8> = if is_write {
                // write datagrams come back with the data that was sent
                match case.op {
                    PrimOp::SendReceive if case.len == 1 => vec![payload[0]],
                    PrimOp::SendReceive => vec![payload[0], *payload.get(1).unwrap_or(&0)],
                    _ => payload.clone(),
                }
            } else {
                let dlen = match (case.op, case.len) {
                    (PrimOp::Receive, 1) => 1,
                    (PrimOp::Receive, 2 | 3) => 2,
                    (PrimOp::Receive, 4..=7) => 4,
                    (PrimOp::Receive, _) => 8,
                    _ => len,
                };

                let mut acc = vec![0u8; dlen];

                for i in &servicing {
                    let m = &net.devices[*i].mem[usize::from(C11_REG)..usize::from(C11_REG) + dlen];

                    if matches!(case.addressing, Addressing::Broadcast) {
                        for (a, b) in acc.iter_mut().zip(m.iter()) {
                            *a |= *b;
                        }
                    } else {
                        acc.copy_from_slice(m);
                    }
                }

                acc
            };

            ensure!(*data == want, format!("C11|wrong-data|{entry}"), "returned {} but the network returned {}", crate::util::hex(data), crate::util::hex(&want));
        }
    }

    // Writes reached exactly the servicing devices
    if is_write {
        let net = net.borrow();
        let wlen = match case.op {
            PrimOp::SendReceive if case.len == 1 => 1,
            PrimOp::SendReceive => 2,
            _ => len,
        };

        for i in 0..n {
            let m = &net.devices[i].mem[usize::from(C11_REG)..usize::from(C11_REG) + wlen.min(len.max(wlen))];
            let written = servicing.contains(&i);

            if written {
                let mut w = payload.clone();

                w.resize(wlen.max(1), 0);

                ensure!(m[..wlen] == w[..wlen], "C11|harness-write-model", "device {i} memory after write");
            } else if wlen <= len {
                ensure!(m[..wlen] == before[i][..wlen], "C11|write-reached-unaddressed-device", "device {i} was not addressed but its memory changed");
            }
        }
    }

    Ok(())
}

// ---------------------------------------------------------------------------------------------
// C11 — composite operations against a device that is absent / drops out
// ---------------------------------------------------------------------------------------------

#[derive(Serialize, Deserialize, Clone, Debug, PartialEq, Eq, Hash)]
pub enum CompOp {
    EepromRead { word: u16, len: u8 },
    SdoRead { sub: u8 },
    SdoWrite { value: u32 },
    RegisterRead,
    Status,
    IntoSafeOp,
    IntoInit,
}

#[derive(Serialize, Deserialize, Clone, Debug, PartialEq, Eq, Hash)]
pub struct C11Comp {
    pub devices: Vec<DevKnobs>,
    pub target: u8,
    pub op: CompOp,
    /// The target stops answering this many datagrams into the operation (0 = absent throughout)
    pub drop_after: u16,
}

pub fn c11_comp() -> impl Strategy<Value = C11Comp> {
    (
        prop::collection::vec(simgen::knobs(simgen::KnobRanges { max_sms: 1, max_pdos: 1, max_entries: 2, allow_dc: false, strict_pct: 0 }), 1..=3),
        any::<u8>(),
        prop_oneof![
            (0u16..0x40, 1u8..24).prop_map(|(word, len)| CompOp::EepromRead { word, len }),
            (0u8..2).prop_map(|sub| CompOp::SdoRead { sub }),
            any::<u32>().prop_map(|value| CompOp::SdoWrite { value }),
            Just(CompOp::RegisterRead),
            Just(CompOp::Status),
            Just(CompOp::IntoSafeOp),
            Just(CompOp::IntoInit),
        ],
        prop_oneof![2 => Just(0u16), 3 => 1u16..12, 1 => 12u16..60],
    )
        .prop_map(|(mut devices, target, op, drop_after)| {
            let t = usize::from(target) % devices.len();

            // The target speaks CoE so that every operation is applicable
            devices[t].mailbox = true;
            devices[t].coe = true;
            devices[t].mbx_size = devices[t].mbx_size.max(32);

            for d in &mut devices {
                if d.name.len() > 40 {
                    d.name.truncate(40);
                }
            }

            C11Comp { devices, target: t as u8, op, drop_after }
        })
}

const C11_OBJ: u16 = 0x2100;

pub fn run_c11_comp(case: &C11Comp, info: &mut CaseInfo) -> Result<(), Fail> {
    let t = usize::from(case.target);
    let mut spec: NetSpec = simgen::build_net(&case.devices, &[], &[]);

    spec.devices[t].od.push(simnet::Object {
        index: C11_OBJ,
        subs: vec![vec![2], vec![0x11, 0x22, 0x33, 0x44], vec![0x55, 0x66, 0x77, 0x88]],
        behaviour: simnet::ObjBehaviour::Normal,
    });
    spec.devices[t].od.sort_by_key(|o| o.index);

    let net: NetHandle = Rc::new(RefCell::new(Network::new(&spec)));
    let cfg = SimConfig::default();
    let op = case.op.clone();
    let drop_after = u64::from(case.drop_after);
    let net2 = net.clone();

    #[derive(Debug)]
    enum Out {
        Bytes(Vec<u8>),
        Unit,
        State(u8),
    }

    let res: Result<Result<Out, Error>, Fail> = simexec::run(&net, &cfg, |md| {
        Box::pin(async move {
            let group = md.init_single_group::<8, 256>(|| 0).await.map_err(|e| Fail::new("C11|harness-init", format!("init of the healthy network failed: {e:?}")))?;

            // From now on the target drops out
            {
                let mut n = net2.borrow_mut();
                let at = n.stats.datagrams + 1 + drop_after;

                n.drop_at = Some((t, at));
            }

            let r: Result<Out, Error> = match op {
                CompOp::EepromRead { word, len } => {
                    let sd = group.subdevice(md, t).unwrap();
                    let mut buf = vec![0u8; usize::from(len)];

                    sd.eeprom_read_raw(md, word, &mut buf).await.map(|n| Out::Bytes(buf[..n].to_vec()))
                }
                CompOp::SdoRead { sub } => {
                    let sd = group.subdevice(md, t).unwrap();

                    sd.sdo_read::<u32>(C11_OBJ, sub + 1).await.map(|v| Out::Bytes(v.to_le_bytes().to_vec()))
                }
                CompOp::SdoWrite { value } => {
                    let sd = group.subdevice(md, t).unwrap();

                    sd.sdo_write(C11_OBJ, 1u8, value).await.map(|_| Out::Unit)
                }
                CompOp::RegisterRead => {
                    let sd = group.subdevice(md, t).unwrap();

                    sd.register_read::<u16>(0x0010u16).await.map(|v| Out::Bytes(v.to_le_bytes().to_vec()))
                }
                CompOp::Status => {
                    let sd = group.subdevice(md, t).unwrap();

                    sd.status().await.map(|(s, _c)| Out::State(match s {
                        ethercrab::SubDeviceState::Init => 1,
                        ethercrab::SubDeviceState::PreOp => 2,
                        ethercrab::SubDeviceState::SafeOp => 4,
                        ethercrab::SubDeviceState::Op => 8,
                        _ => 0,
                    }))
                }
                CompOp::IntoSafeOp => group.into_safe_op(md).await.map(|_| Out::State(4)),
                CompOp::IntoInit => group.into_init(md).await.map(|_| Out::State(1)),
            };

            Ok(r)
        })
    })
    .map_err(|e| sim_fail("C11", e))?;

    let res = res?;
    let net = net.borrow();
    let dev = &net.devices[t];
    let multi = !matches!(case.op, CompOp::RegisterRead);

    info.nontrivial = case.drop_after == 0 || (multi && dev.absent);
    info.label(format!("{:?}", std::mem::discriminant(&case.op)).replace("Discriminant", "op"));

    if case.drop_after == 0 {
        info.label("absent-throughout");
    } else if dev.absent {
        info.label("dropout-inside-operation");
    } else {
        info.label("operation-finished-before-dropout");
    }

    let opname = match case.op {
        CompOp::EepromRead { .. } => "eeprom-read",
        CompOp::SdoRead { .. } => "sdo-read",
        CompOp::SdoWrite { .. } => "sdo-write",
        CompOp::RegisterRead => "register-read",
        CompOp::Status => "status",
        CompOp::IntoSafeOp => "into-safe-op",
        CompOp::IntoInit => "into-init",
    };

    match res {
        Err(e) => {
            if case.drop_after == 0 {
                ensure!(
                    matches!(e, Error::WorkingCounter { expected: 1, received: 0 }),
                    format!("C11|absent-device-wrong-error|{opname}"),
                    "the device was absent throughout; expected WorkingCounter {{ expected: 1, received: 0 }}, got {e:?}"
                );
            } else if !dev.absent {
                fail!(format!("C11|healthy-operation-failed|{opname}"), "the device never dropped out but the operation failed: {e:?}");
            } else {
                // The device dropped out inside the operation and stayed out: the first datagram
                // after that came back with one service too few, and that is what must be reported
                // (a poll loop that never sees the awaited state may also end in its timeout: that
                // says "never got there", which mistakes nothing). Any other error was derived by
                // interpreting bytes that no device supplied.
                ensure!(
                    matches!(e, Error::WorkingCounter { expected, received } if received < expected) || matches!(e, Error::Timeout(_)),
                    format!("C11|dropout-wrong-error|{opname}"),
                    "the device dropped out after {} datagram(s) of the operation; expected a working-counter error with received < expected (or the poll timeout), got {e:?}",
                    case.drop_after
                );
            }

            Ok(())
        }
        Ok(out) => {
            // Ok is acceptable only if it is the truth and (for writes / transitions) completed
            match (&case.op, out) {
                (CompOp::EepromRead { word, len }, Out::Bytes(b)) => {
                    let a = usize::from(*word) * 2;
                    let want = &dev.eeprom[a..a + usize::from(*len)];

                    ensure!(b == want, format!("C11|data-from-silent-device|{opname}"), "returned {} but the EEPROM holds {} (device dropped out: {})", crate::util::hex(&b), crate::util::hex(want), dev.absent);
                }
                (CompOp::SdoRead { sub }, Out::Bytes(b)) => {
                    let want: &[u8] = if *sub == 0 { &[0x11, 0x22, 0x33, 0x44] } else { &[0x55, 0x66, 0x77, 0x88] };

                    ensure!(b == want, format!("C11|data-from-silent-device|{opname}"), "returned {} but the object holds {}", crate::util::hex(&b), crate::util::hex(want));
                }
                (CompOp::SdoWrite { value }, _) => {
                    ensure!(
                        dev.stats.downloads.iter().any(|(i, s, d)| *i == C11_OBJ && *s == 1 && d == &value.to_le_bytes().to_vec()),
                        format!("C11|completed-for-silent-device|{opname}"),
                        "sdo_write returned Ok but the device never received the download (dropped out: {})",
                        dev.absent
                    );
                }
                (CompOp::RegisterRead, Out::Bytes(b)) => {
                    ensure!(b == (0x1000 + t as u16).to_le_bytes(), format!("C11|data-from-silent-device|{opname}"), "register read returned {}", crate::util::hex(&b));
                    ensure!(case.drop_after > 0, format!("C11|data-from-silent-device|{opname}"), "register read of an absent device returned Ok");
                }
                (CompOp::Status, Out::State(s)) => {
                    ensure!(s == dev.al_state && case.drop_after > 0, format!("C11|data-from-silent-device|{opname}"), "status() returned state {s}; device is in {} (absent from datagram {})", dev.al_state, case.drop_after);
                }
                (CompOp::IntoSafeOp | CompOp::IntoInit, Out::State(s)) => {
                    for (i, d) in net.devices.iter().enumerate() {
                        ensure!(
                            d.al_state == s,
                            format!("C11|completed-for-silent-device|{opname}"),
                            "group transition returned Ok but device {i} is in state {} (absent: {})",
                            d.al_state,
                            d.absent
                        );
                    }
                }
                (o, out) => fail!("harness|c11", "unexpected combination {o:?} {out:?}"),
            }

            Ok(())
        }
    }
}
