//! CoE server of the simulated devices (ETG.1000.6 §5.6): SDO upload (expedited / normal /
//! segmented), expedited download, abort, emergency, SDO information (OD list, quantities).

use crate::simnet::{Device, ObjBehaviour, UploadPolicy};

pub const ABORT_NO_OBJECT: u32 = 0x0602_0000;
pub const ABORT_NO_SUBINDEX: u32 = 0x0609_0011;
pub const ABORT_TOGGLE: u32 = 0x0503_0000;
pub const ABORT_UNSUPPORTED: u32 = 0x0601_0000;

fn mbx_header(len: usize, counter: u8) -> Vec<u8> {
    let mut h = Vec::with_capacity(6 + len);

    h.extend_from_slice(&(len as u16).to_le_bytes());
    h.extend_from_slice(&[0, 0]);
    h.push(0);
    // type 3 (CoE) in the low nibble, counter in bits 4..6
    h.push(0x03 | ((counter & 7) << 4));

    h
}

fn coe_header(service: u8) -> [u8; 2] {
    (u16::from(service) << 12).to_le_bytes()
}

pub fn abort_reply(counter: u8, index: u16, sub: u8, code: u32) -> Vec<u8> {
    let mut r = mbx_header(10, counter);

    r.extend_from_slice(&coe_header(2));
    r.push(4 << 5);
    r.extend_from_slice(&index.to_le_bytes());
    r.push(sub);
    r.extend_from_slice(&code.to_le_bytes());

    r
}

pub fn emergency_reply(counter: u8, code: u16, register: u8) -> Vec<u8> {
    let mut r = mbx_header(10, counter);

    r.extend_from_slice(&coe_header(1));
    r.extend_from_slice(&code.to_le_bytes());
    r.push(register);
    r.extend_from_slice(&[0xd0, 0xd1, 0xd2, 0xd3, 0xd4]);

    r
}

/// Counter the device uses for its replies (1..=7 cycling, independent of the request's)
fn reply_counter(d: &Device) -> u8 {
    ((d.stats.mailbox_requests.len() as u8).wrapping_sub(1) % 7) + 1
}

pub fn serve(d: &mut Device, req: &[u8]) -> Option<Vec<u8>> {
    if req.len() < 9 {
        return None;
    }

    let typ = req[5] & 0x0f;

    if typ != 3 {
        // not CoE: mailbox error reply (type 0) "unsupported protocol"
        let mut r = Vec::new();

        r.extend_from_slice(&4u16.to_le_bytes());
        r.extend_from_slice(&[0, 0, 0, 0x00 | (reply_counter(d) << 4)]);
        r.extend_from_slice(&[0x01, 0x00, 0x02, 0x00]);

        return Some(r);
    }

    let cnt = reply_counter(d);
    let service = u16::from_le_bytes([req[6], req[7]]) >> 12;

    match service {
        2 => serve_sdo(d, req, cnt),
        8 => serve_sdo_info(d, req, cnt),
        _ => None,
    }
}

fn serve_sdo(d: &mut Device, req: &[u8], cnt: u8) -> Option<Vec<u8>> {
    let cmd = req[8];
    let ccs = cmd >> 5;

    match ccs {
        2 => {
            // upload init
            if req.len() < 12 {
                return None;
            }

            let index = u16::from_le_bytes([req[9], req[10]]);
            let sub = req[11];
            let complete = cmd & 0x10 != 0;

            d.stats.uploads.push((index, sub));

            let Some(obj) = d.spec.od.iter().find(|o| o.index == index).cloned() else {
                return Some(abort_reply(cnt, index, sub, ABORT_NO_OBJECT));
            };

            match obj.behaviour {
                ObjBehaviour::Abort(code) => return Some(abort_reply(cnt, index, sub, code)),
                ObjBehaviour::Emergency { code, register } => return Some(emergency_reply(cnt, code, register)),
                _ => {}
            }

            let data: Vec<u8> = if complete {
                obj.subs.iter().skip(usize::from(sub)).flatten().copied().collect()
            } else {
                match obj.subs.get(usize::from(sub)) {
                    Some(v) => v.clone(),
                    None => return Some(abort_reply(cnt, index, sub, ABORT_NO_SUBINDEX)),
                }
            };

            let (rindex, rsub) = match obj.behaviour {
                ObjBehaviour::WrongIndex => (index.wrapping_add(1), sub),
                ObjBehaviour::WrongSubIndex => (index, sub.wrapping_add(1)),
                _ => (index, sub),
            };
            let mbx = d.read_mailbox_len();
            let fits_normal = 16 + data.len() <= mbx;

            // The upload policy applies to application objects; communication objects (< 0x2000,
            // e.g. PDO assignment / mapping) are served the way devices do: expedited when <= 4 bytes
            let policy_applies = index >= 0x2000;
            let small = !data.is_empty() && data.len() <= 4;

            let cflag = if complete { 0x10 } else { 0 };

            let segmented_sizes = match &d.spec.upload {
                UploadPolicy::Segmented(s) if policy_applies && !s.is_empty() && !data.is_empty() && mbx >= 16 => Some((0usize, s.clone())),
                UploadPolicy::SegmentedInitData(first, s) if policy_applies && !s.is_empty() && data.len() >= 2 && mbx >= 17 => {
                    // at least one byte must be left for the segments
                    Some((usize::from(*first).clamp(1, (mbx - 16).min(data.len() - 1)), s.clone()))
                }
                _ if !fits_normal && !small => Some((0, vec![(mbx.saturating_sub(9)) as u16])),
                _ => None,
            };

            if let Some((first, _sizes)) = segmented_sizes {
                // Segmented: the initiate response announces the complete size and carries the
                // first `first` bytes (possibly none)
                let mut r = mbx_header(10 + first, cnt);

                r.extend_from_slice(&coe_header(3));
                r.push((2 << 5) | 0x01);
                r.extend_from_slice(&rindex.to_le_bytes());
                r.push(rsub);
                r.extend_from_slice(&(data.len() as u32).to_le_bytes());
                r.extend_from_slice(&data[..first]);

                *d.segmented_state() = Some((data[first..].to_vec(), false, 0));
                d.stats.upload_kinds.push(2 | cflag);

                return Some(r);
            }

            let expedited = small && !(policy_applies && d.spec.upload == UploadPolicy::PreferNormal && fits_normal);

            if expedited || (data.is_empty() && !fits_normal) {
                d.stats.upload_kinds.push(cflag);

                let mut r = mbx_header(10, cnt);

                r.extend_from_slice(&coe_header(3));
                r.push((2 << 5) | 0x02 | 0x01 | (((4 - data.len()) as u8) << 2));
                r.extend_from_slice(&rindex.to_le_bytes());
                r.push(rsub);

                let mut four = [0u8; 4];

                four[..data.len()].copy_from_slice(&data);
                r.extend_from_slice(&four);

                Some(r)
            } else {
                d.stats.upload_kinds.push(1 | cflag);

                let mut r = mbx_header(10 + data.len(), cnt);

                r.extend_from_slice(&coe_header(3));
                r.push((2 << 5) | 0x01);
                r.extend_from_slice(&rindex.to_le_bytes());
                r.push(rsub);
                r.extend_from_slice(&(data.len() as u32).to_le_bytes());
                r.extend_from_slice(&data);

                Some(r)
            }
        }
        3 => {
            // upload segment request
            let toggle = cmd & 0x10 != 0;
            let mbx = d.read_mailbox_len();
            let sizes = match &d.spec.upload {
                UploadPolicy::Segmented(s) | UploadPolicy::SegmentedInitData(_, s) if !s.is_empty() => s.clone(),
                _ => vec![(mbx.saturating_sub(9)) as u16],
            };

            let Some((rest, expect_toggle, k)) = d.segmented_state().clone() else {
                return Some(abort_reply(cnt, 0, 0, ABORT_UNSUPPORTED));
            };

            if toggle != expect_toggle {
                *d.segmented_state() = None;

                return Some(abort_reply(cnt, 0, 0, ABORT_TOGGLE));
            }

            let max = mbx.saturating_sub(9).max(7);
            let want = usize::from(sizes[k % sizes.len()]).clamp(1, max);
            let n = want.min(rest.len());
            let last = n == rest.len();
            // Only the last segment may be shorter than 7 bytes
            let n = if !last && n < 7 { 7.min(rest.len()) } else { n };
            let last = n == rest.len();
            let chunk = &rest[..n];

            let mut r = mbx_header(3 + n.max(7), cnt);

            r.extend_from_slice(&coe_header(3));

            let unused = if n < 7 { (7 - n) as u8 } else { 0 };

            r.push((u8::from(toggle) << 4) | (unused << 1) | u8::from(last));
            r.extend_from_slice(chunk);

            if n < 7 {
                r.extend(std::iter::repeat_n(0u8, 7 - n));
            }

            *d.segmented_state() = if last { None } else { Some((rest[n..].to_vec(), !toggle, k + 1)) };

            Some(r)
        }
        1 => {
            // download init
            if req.len() < 16 {
                return None;
            }

            let index = u16::from_le_bytes([req[9], req[10]]);
            let sub = req[11];
            let expedited = cmd & 0x02 != 0;

            if !expedited {
                return Some(abort_reply(cnt, index, sub, ABORT_UNSUPPORTED));
            }

            let n = if cmd & 0x01 != 0 { 4 - usize::from((cmd >> 2) & 3) } else { 4 };
            let data = req[12..12 + n].to_vec();

            d.stats.downloads.push((index, sub, data.clone()));

            if let Some(obj) = d.spec.od.iter().find(|o| o.index == index).cloned() {
                match obj.behaviour {
                    ObjBehaviour::Abort(code) => return Some(abort_reply(cnt, index, sub, code)),
                    ObjBehaviour::Emergency { code, register } => return Some(emergency_reply(cnt, code, register)),
                    _ => {}
                }
            }

            // store
            let (rindex, rsub) = match d.spec.od.iter_mut().find(|o| o.index == index) {
                Some(o) => {
                    while o.subs.len() <= usize::from(sub) {
                        o.subs.push(vec![]);
                    }

                    o.subs[usize::from(sub)] = data;

                    match o.behaviour {
                        ObjBehaviour::WrongIndex => (index.wrapping_add(1), sub),
                        ObjBehaviour::WrongSubIndex => (index, sub.wrapping_add(1)),
                        _ => (index, sub),
                    }
                }
                None => return Some(abort_reply(cnt, index, sub, ABORT_NO_OBJECT)),
            };

            let mut r = mbx_header(10, cnt);

            r.extend_from_slice(&coe_header(3));
            r.push(3 << 5);
            r.extend_from_slice(&rindex.to_le_bytes());
            r.push(rsub);
            r.extend_from_slice(&[0, 0, 0, 0]);

            Some(r)
        }
        _ => None,
    }
}

fn serve_sdo_info(d: &mut Device, req: &[u8], cnt: u8) -> Option<Vec<u8>> {
    if req.len() < 14 {
        return None;
    }

    let opcode = req[8] & 0x7f;

    if opcode != 1 {
        return None;
    }

    let list_type = u16::from_le_bytes([req[12], req[13]]);
    let indices: Vec<u16> = d.spec.od.iter().map(|o| o.index).collect();

    let payload: Vec<u8> = if list_type == 0 {
        // quantities: all, rx-mappable, tx-mappable, backup, startup
        let all = indices.len() as u16;
        let rx = indices.iter().filter(|i| (0x1600..0x1800).contains(*i)).count() as u16;
        let tx = indices.iter().filter(|i| (0x1a00..0x1c00).contains(*i)).count() as u16;

        [all, rx, tx, 0, 0].iter().flat_map(|v| v.to_le_bytes()).collect()
    } else {
        let sel: Vec<u16> = match list_type {
            1 => indices.clone(),
            2 => indices.iter().copied().filter(|i| (0x1600..0x1800).contains(i)).collect(),
            3 => indices.iter().copied().filter(|i| (0x1a00..0x1c00).contains(i)).collect(),
            _ => vec![],
        };

        sel.iter().flat_map(|v| v.to_le_bytes()).collect()
    };

    // Fragment to the mailbox size. Each fragment: 6 mbx + 2 coe + 4 info header (+2 list type in
    // the first) + data
    let mbx = d.read_mailbox_len().max(16);
    let first_room = mbx.saturating_sub(14).max(2) & !1;
    let other_room = mbx.saturating_sub(12).max(2) & !1;

    let mut frags: Vec<Vec<u8>> = Vec::new();
    let mut rest = payload.as_slice();
    let mut first = true;

    loop {
        let room = if first { first_room } else { other_room };
        let n = room.min(rest.len());

        frags.push(rest[..n].to_vec());
        rest = &rest[n..];
        first = false;

        if rest.is_empty() {
            break;
        }
    }

    let total = frags.len();
    let mut replies = Vec::new();

    for (i, f) in frags.iter().enumerate() {
        let left = (total - 1 - i) as u16;
        let body_len = 2 + 4 + if i == 0 { 2 } else { 0 } + f.len();
        let mut r = mbx_header(body_len, cnt);

        r.extend_from_slice(&coe_header(8));
        r.push(0x02 | if left > 0 { 0x80 } else { 0 });
        r.push(0);
        r.extend_from_slice(&left.to_le_bytes());

        if i == 0 {
            r.extend_from_slice(&list_type.to_le_bytes());
        }

        r.extend_from_slice(f);
        replies.push(r);
    }

    // All fragments are queued in order; the mailbox serves them one after the other
    for r in replies {
        d.mbx.out_queue.push_back(r);
    }

    None
}
