//! C04 — every transmitted frame is a well-formed EtherCAT frame saying what was asked.
//!
//! A case is a frame size plus a program of pushes. The program is run against the real frame
//! builder and against a reference model of its documented contract; the bytes handed to the
//! `send_blocking` closure must equal what the independent encoder produces.

use crate::{
    core::{CaseInfo, Fail},
    ensure, fail,
    storage::make_storage,
    util::{bytes_from_seed, hex},
    wire::{self, Cmd, RefDatagram},
};
use ethercrab::{error::PduError, verif};
use proptest::prelude::*;
use serde::{Deserialize, Serialize};
use std::time::Duration;

#[derive(Serialize, Deserialize, Clone, Copy, Debug, PartialEq, Eq, Hash)]
pub enum Ov {
    None,
    /// Override = data length - delta (saturating) — the data length must win.
    Below(u16),
    Equal,
    /// Override = data length + delta.
    Above(u16),
}

#[derive(Serialize, Deserialize, Clone, Debug, PartialEq, Eq, Hash)]
pub enum Push {
    /// `push_pdu` with a payload of `len` bytes.
    Pdu { cmd: Cmd, len: u16, ov: Ov, seed: u8 },
    /// `push_pdu` with a declared length that lands `delta` bytes from exactly filling the frame.
    PduFit { cmd: Cmd, delta: i8, via_override: bool, seed: u8 },
    /// `push_pdu_slice_rest` with `len` bytes.
    Rest { cmd: Cmd, len: u16, seed: u8 },
    /// `push_pdu_slice_rest` with `remaining + delta` bytes.
    RestFit { cmd: Cmd, delta: i8, seed: u8 },
}

#[derive(Serialize, Deserialize, Clone, Debug, PartialEq, Eq, Hash)]
pub struct Case {
    /// Ethernet frame size (`DATA` of `PduStorage`).
    pub frame_size: u16,
    /// Starting value of the datagram index counter (reaches the 8 bit wrap).
    pub pdu_idx0: u8,
    /// First build, send and complete a frame full of 0xFF in the same slot (stale-byte leakage).
    pub prefill: bool,
    /// Previous life of the slot: a short request whose response came back longer than the request
    /// (as much 0xEE behind it as the slot holds); the receive side stores all of it
    #[serde(default)]
    pub prefill_long_response: bool,
    pub pushes: Vec<Push>,
}

fn push_strategy(cap: usize) -> impl Strategy<Value = Push> + Clone {
    let max_len = (cap + 8) as u16;

    prop_oneof![
        2 => (crate::r#gen::cmd(), 0..=max_len, ov(), any::<u8>())
            .prop_map(|(cmd, len, ov, seed)| Push::Pdu { cmd, len, ov, seed }),
        7 => (crate::r#gen::cmd(), 0u16..=24, ov(), any::<u8>())
            .prop_map(|(cmd, len, ov, seed)| Push::Pdu { cmd, len, ov, seed }),
        2 => (crate::r#gen::cmd(), -3i8..=3, any::<bool>(), any::<u8>())
            .prop_map(|(cmd, delta, via_override, seed)| Push::PduFit { cmd, delta, via_override, seed }),
        1 => (crate::r#gen::cmd(), 0..=(2 * cap as u16 + 2), any::<u8>())
            .prop_map(|(cmd, len, seed)| Push::Rest { cmd, len, seed }),
        1 => (crate::r#gen::cmd(), -3i8..=3, any::<u8>())
            .prop_map(|(cmd, delta, seed)| Push::RestFit { cmd, delta, seed }),
    ]
}

fn ov() -> impl Strategy<Value = Ov> + Clone {
    prop_oneof![
        3 => Just(Ov::None),
        1 => (1u16..40).prop_map(Ov::Below),
        1 => Just(Ov::Equal),
        2 => (1u16..40).prop_map(Ov::Above),
    ]
}

pub fn case_with_size(frame_size: u16) -> impl Strategy<Value = Case> + Clone {
    let cap = usize::from(frame_size) - 16;

    (
        prop_oneof![3 => Just(0u8), 1 => any::<u8>(), 1 => 250u8..=255],
        prop::bool::weighted(0.3),
        prop::bool::weighted(0.25),
        prop::collection::vec(push_strategy(cap), 1..=40),
    )
        .prop_map(move |(pdu_idx0, prefill, long, pushes)| Case {
            frame_size,
            pdu_idx0,
            prefill: prefill && !long,
            prefill_long_response: long && frame_size >= 32,
            pushes,
        })
}

pub fn case_strategy() -> impl Strategy<Value = Case> + Clone {
    crate::r#gen::frame_size().prop_flat_map(case_with_size)
}

pub fn case_strategy_uniform() -> impl Strategy<Value = Case> + Clone {
    (28u16..=1514).prop_flat_map(case_with_size)
}

/// Reference model of the frame being built.
struct Model {
    cap: usize,
    consumed: usize,
    dgs: Vec<RefDatagram>,
}

pub const RULE: &str = "case = (frame size, push program); non-trivial = the sent frame has >= 2 datagrams, or a push lands within +-2 bytes of the remaining capacity, or a length override differs from the data length; distinct by hash of the case";

pub fn run_case(case: &Case, info: &mut CaseInfo) -> Result<(), Fail> {
    let frame_size = usize::from(case.frame_size);
    let storage = make_storage(1, frame_size)
        .ok_or_else(|| Fail::new("harness", format!("no storage for size {frame_size}")))?;
    let (mut tx, mut rx, pdu_loop) = storage.split();
    let pdu_loop = &pdu_loop;

    crate::vclock::reset();

    verif::set_counters(pdu_loop, 0, case.pdu_idx0);

    ensure!(
        verif::frame_data_len(pdu_loop) == frame_size,
        "harness",
        "frame_data_len mismatch"
    );

    if case.prefill {
        prefill_slot(&mut tx, &mut rx, pdu_loop, frame_size, false)?;
        info.label("prefill");
    }

    if case.prefill_long_response {
        prefill_slot(&mut tx, &mut rx, pdu_loop, frame_size, true)?;
        info.label("prefill-response-longer-than-request");
    }

    let mut model = Model {
        cap: frame_size - 16,
        consumed: 0,
        dgs: Vec::new(),
    };

    let mut frame = match verif::alloc_frame(pdu_loop) {
        Ok(f) => f,
        Err(e) => fail!("alloc-failed", "alloc_frame on an idle storage failed: {e:?}"),
    };

    let mut near_boundary = false;
    let mut override_differs = false;
    let mut refused = 0u64;

    for (i, p) in case.pushes.iter().enumerate() {
        let remaining = model.cap - model.consumed;

        // can_push_pdu_payload differential for a few lengths around the boundary
        for probe in [0usize, remaining.saturating_sub(13), remaining.saturating_sub(12), remaining.saturating_sub(11), remaining] {
            let expect = model.consumed + probe + 12 <= model.cap;

            ensure!(
                frame.can_push_pdu_payload(probe) == expect,
                "can-push-mismatch",
                "push #{i}: can_push_pdu_payload({probe}) != {expect} with {remaining} bytes remaining"
            );
        }

        match p {
            Push::Pdu { .. } | Push::PduFit { .. } => {
                let (cmd, payload, ov): (Cmd, Vec<u8>, Option<u16>) = match *p {
                    Push::Pdu { cmd, len, ov, seed } => {
                        let o = match ov {
                            Ov::None => None,
                            Ov::Below(d) => Some(len.saturating_sub(d)),
                            Ov::Equal => Some(len),
                            Ov::Above(d) => Some(len + d),
                        };

                        (cmd, bytes_from_seed(u64::from(seed) + i as u64 * 251, usize::from(len)), o)
                    }
                    Push::PduFit { cmd, delta, via_override, seed } => {
                        // Declared length that leaves `-delta` bytes (delta > 0: does not fit)
                        let declared = (remaining as i64 - 12 + i64::from(delta)).max(0) as usize;

                        if via_override {
                            let plen = declared / 2;

                            (cmd, bytes_from_seed(u64::from(seed) + i as u64 * 251, plen), Some(declared as u16))
                        } else {
                            (cmd, bytes_from_seed(u64::from(seed) + i as u64 * 251, declared), None)
                        }
                    }
                    _ => unreachable!(),
                };

                let declared = ov.map_or(payload.len(), |o| usize::from(o).max(payload.len()));
                let alloc = declared + 12;
                let fits = model.consumed + alloc <= model.cap;

                if ov.is_some() && declared != payload.len() {
                    override_differs = true;
                }

                if (remaining as i64 - alloc as i64).abs() <= 2 {
                    near_boundary = true;
                }

                let res = frame.push_pdu(cmd.to_ethercrab(), &payload, ov);

                match (fits, res) {
                    (true, Ok(h)) => {
                        ensure!(
                            h.command_code == cmd.code() && usize::from(h.index_in_frame) == model.dgs.len() && h.alloc_size == alloc,
                            "handle-mismatch",
                            "push #{i}: handle {h:?} does not describe the datagram (code {}, position {}, alloc {alloc})",
                            cmd.code(),
                            model.dgs.len()
                        );

                        model.dgs.push(RefDatagram {
                            code: cmd.code(),
                            idx: h.pdu_idx,
                            addr: cmd.addr_bytes(),
                            len: declared as u16,
                            data: payload,
                        });
                        model.consumed += alloc;
                    }
                    (false, Err(PduError::TooLong)) => {
                        refused += 1;
                    }
                    (true, Err(e)) => {
                        fail!("push-refused-but-fits", "push #{i}: {alloc} bytes fit into {remaining} but push_pdu returned {e:?}")
                    }
                    (false, Ok(h)) => {
                        fail!("push-accepted-but-too-long", "push #{i}: {alloc} bytes do not fit into {remaining} but push_pdu returned {h:?}")
                    }
                    (false, Err(e)) => {
                        fail!("push-wrong-error", "push #{i}: expected PduError::TooLong, got {e:?}")
                    }
                }
            }
            Push::Rest { .. } | Push::RestFit { .. } => {
                let (cmd, bytes) = match *p {
                    Push::Rest { cmd, len, seed } => {
                        (cmd, bytes_from_seed(u64::from(seed) + i as u64 * 251, usize::from(len)))
                    }
                    Push::RestFit { cmd, delta, seed } => {
                        let len = (remaining as i64 - 12 + i64::from(delta)).max(0) as usize;

                        (cmd, bytes_from_seed(u64::from(seed) + i as u64 * 251, len))
                    }
                    _ => unreachable!(),
                };

                let max_bytes = remaining.saturating_sub(12);
                let expect_n = if bytes.is_empty() || max_bytes == 0 {
                    None
                } else {
                    Some(max_bytes.min(bytes.len()))
                };

                if (remaining as i64 - (bytes.len() as i64 + 12)).abs() <= 2 {
                    near_boundary = true;
                }

                let res = frame.push_pdu_slice_rest(cmd.to_ethercrab(), &bytes);

                match (expect_n, res) {
                    (None, Ok(None)) => {
                        refused += 1;
                    }
                    (Some(n), Ok(Some((got, h)))) => {
                        ensure!(
                            got == n,
                            "rest-wrong-count",
                            "push #{i}: fill-the-rest of {} bytes into {remaining} remaining reported {got} bytes, expected {n}",
                            bytes.len()
                        );
                        ensure!(
                            h.command_code == cmd.code() && usize::from(h.index_in_frame) == model.dgs.len() && h.alloc_size == n + 12,
                            "handle-mismatch",
                            "push #{i}: handle {h:?} does not describe the datagram"
                        );

                        model.dgs.push(RefDatagram {
                            code: cmd.code(),
                            idx: h.pdu_idx,
                            addr: cmd.addr_bytes(),
                            len: n as u16,
                            data: bytes[..n].to_vec(),
                        });
                        model.consumed += n + 12;
                    }
                    (e, r) => {
                        fail!(
                            "rest-contract",
                            "push #{i}: fill-the-rest of {} bytes into {remaining} remaining: expected {e:?}, got {:?}",
                            bytes.len(),
                            r.map(|o| o.map(|(n, _)| n))
                        )
                    }
                }
            }
        }
    }

    info.count("pushes", case.pushes.len() as u64);
    info.count("refused", refused);

    if model.dgs.is_empty() {
        ensure!(frame.is_empty(), "is-empty", "is_empty() false with no accepted push");

        // Nothing to send: dropping the frame must free the slot (CreatedFrame::drop)
        drop(frame);

        ensure!(
            verif::slot(pdu_loop, 0).state == 0,
            "created-drop-leak",
            "slot not released by dropping an unsent frame"
        );

        info.label("empty-frame");

        return Ok(());
    }

    ensure!(!frame.is_empty(), "is-empty", "is_empty() true with accepted pushes");

    let fut = frame.mark_sendable(pdu_loop, Duration::from_millis(10), 0);

    let sendable = tx
        .next_sendable_frame()
        .ok_or_else(|| Fail::new("not-sendable", "marked frame is not offered to the TX side"))?;

    let mut sent: Vec<u8> = Vec::new();

    let expect_len = sendable.len();

    sendable
        .send_blocking(|b| {
            sent = b.to_vec();
            Ok(b.len())
        })
        .map_err(|e| Fail::new("send-failed", format!("{e:?}")))?;

    ensure!(
        sent.len() == expect_len,
        "len-mismatch",
        "SendableFrame::len() {} != bytes handed to the closure {}",
        expect_len,
        sent.len()
    );

    let expected = wire::encode_frame(&model.dgs);

    if let Err(rule) = wire::check_tx_wellformed(&sent, frame_size) {
        let rule_class = rule.split([':', '@']).next().unwrap_or("").to_string();

        fail!(
            format!("malformed|{rule_class}"),
            "transmitted frame is not well-formed ({rule}): {}",
            hex(&sent)
        );
    }

    if sent != expected {
        let at = sent
            .iter()
            .zip(expected.iter())
            .position(|(a, b)| a != b)
            .unwrap_or(sent.len().min(expected.len()));

        fail!(
            "frame-differs",
            "transmitted frame differs from the reference encoding at byte {at} (sent {} bytes, expected {}): sent {} expected {}",
            sent.len(),
            expected.len(),
            hex(&sent),
            hex(&expected)
        );
    }

    drop(fut);

    ensure!(
        verif::slot(pdu_loop, 0).state == 0,
        "future-drop-leak",
        "slot not released by dropping the response future"
    );

    info.nontrivial = model.dgs.len() >= 2 || near_boundary || override_differs;

    if model.dgs.len() >= 2 {
        info.label("multi-datagram");
    }

    if near_boundary {
        info.label("near-capacity");
    }

    if override_differs {
        info.label("override-differs");
    }

    if refused > 0 {
        info.label("has-refusal");
    }

    if usize::from(case.pdu_idx0) + model.dgs.len() > 256 {
        info.label("index-wrap");
    }

    info.label(match frame_size {
        28..=63 => "size-28-63",
        64..=127 => "size-64-127",
        128..=511 => "size-128-511",
        512..=1499 => "size-512-1499",
        _ => "size-1500-1514",
    });

    Ok(())
}

/// Fill the (only) slot with 0xFF through a complete request/response cycle so that a later frame
/// in the same slot would expose stale bytes.
fn prefill_slot(
    tx: &mut ethercrab::PduTx<'_>,
    rx: &mut ethercrab::PduRx<'_>,
    pdu_loop: &ethercrab::PduLoop<'_>,
    frame_size: usize,
    long_response: bool,
) -> Result<(), Fail> {
    // SAFETY of lifetimes: everything is dropped before returning.
    let pdu_loop: &ethercrab::PduLoop<'_> = pdu_loop;
    let cap = frame_size - 16;
    let payload = if long_response { vec![0xffu8; 2] } else { vec![0xffu8; cap - 12] };

    let mut f = verif::alloc_frame(pdu_loop).map_err(|e| Fail::new("harness", format!("prefill alloc {e:?}")))?;

    let h = f
        .push_pdu(Cmd::Lrw { addr: 0xffff_ffff }.to_ethercrab(), &payload, None)
        .map_err(|e| Fail::new("harness", format!("prefill push {e:?}")))?;

    // The borrow of `pdu_loop` for the future must have the storage lifetime; transmute-free
    // trick: run the rest inside a helper generic over the lifetime.
    fn go<'a>(
        f: verif::Frame<'a>,
        h: verif::Handle,
        tx: &mut ethercrab::PduTx<'_>,
        rx: &mut ethercrab::PduRx<'_>,
        pdu_loop: &'a ethercrab::PduLoop<'a>,
        payload: &[u8],
        grow_to: Option<usize>,
    ) -> Result<(), Fail> {
        let mut fut = std::pin::pin!(f.mark_sendable(pdu_loop, Duration::from_secs(10), 0));
        let sf = tx
            .next_sendable_frame()
            .ok_or_else(|| Fail::new("harness", "prefill not sendable"))?;
        let mut sent = Vec::new();

        sf.send_blocking(|b| {
            sent = b.to_vec();
            Ok(b.len())
        })
        .map_err(|e| Fail::new("harness", format!("prefill send {e:?}")))?;

        let mut resp = wire::make_response(&sent, &[payload.to_vec()], &[0xffff]);

        if let Some(cap) = grow_to {
            // the response comes back longer than the request: junk behind the datagram, and a
            // length field that covers it
            let have = resp.len() - 16;

            resp.extend(std::iter::repeat_n(0xeeu8, cap - have));

            let hdr = (cap as u16 & 0x07ff) | 0x1000;

            resp[14..16].copy_from_slice(&hdr.to_le_bytes());
        }

        rx.receive_frame(&resp)
            .map_err(|e| Fail::new("harness", format!("prefill rx {e:?}")))?;

        match crate::util::poll_once(fut.as_mut()) {
            std::task::Poll::Ready(Ok(frame)) => {
                let pdu = frame
                    .first_pdu(h)
                    .map_err(|e| Fail::new("harness", format!("prefill first_pdu {e:?}")))?;

                drop(pdu);

                Ok(())
            }
            other => Err(Fail::new(
                "harness",
                format!("prefill did not complete: {:?}", other.map(|r| r.map(|_| ()))),
            )),
        }
    }

    // Shrink the lifetime of the loop reference to a local one (PduLoop is covariant).
    go(f, h, tx, rx, pdu_loop, &payload, if long_response { Some(cap) } else { None })
}
