//! Virtual clock: an `embassy_time_driver::Driver` whose time only moves when the harness says
//! so. One clock per scenario; the clock a thread uses is a thread-local handle so that scenarios
//! can run in parallel on different threads, and party threads of one scenario can share one.

use std::{
    cell::RefCell,
    sync::{Arc, Mutex},
    task::Waker,
};

#[derive(Default)]
pub struct ClockState {
    pub now: u64,
    pub wakes: Vec<(u64, Waker)>,
    /// Number of `schedule_wake` calls (timer polls) seen.
    pub schedule_calls: u64,
}

pub type ClockHandle = Arc<Mutex<ClockState>>;

thread_local! {
    static CLOCK: RefCell<ClockHandle> = RefCell::new(Arc::new(Mutex::new(ClockState::default())));
}

struct VDriver;

impl embassy_time_driver::Driver for VDriver {
    fn now(&self) -> u64 {
        now()
    }

    fn schedule_wake(&self, at: u64, waker: &Waker) {
        let h = handle();
        let mut c = h.lock().unwrap();

        c.schedule_calls += 1;

        if at <= c.now {
            drop(c);
            waker.wake_by_ref();
        } else {
            c.wakes.push((at, waker.clone()));
        }
    }
}

embassy_time_driver::time_driver_impl!(static DRIVER: VDriver = VDriver);

/// The clock handle of this thread.
pub fn handle() -> ClockHandle {
    CLOCK.with(|c| c.borrow().clone())
}

/// Make this thread use `h` as its clock.
pub fn adopt(h: ClockHandle) {
    CLOCK.with(|c| *c.borrow_mut() = h);
}

/// Give this thread a fresh clock at time zero and return its handle.
pub fn reset() -> ClockHandle {
    let h: ClockHandle = Arc::new(Mutex::new(ClockState::default()));

    adopt(h.clone());

    h
}

/// Current virtual time in microseconds.
pub fn now() -> u64 {
    handle().lock().unwrap().now
}

/// Earliest pending wake time, if any.
pub fn next_deadline() -> Option<u64> {
    handle().lock().unwrap().wakes.iter().map(|(t, _)| *t).min()
}

/// Move time forward to `t` (never backwards) and fire all wakes that are due.
pub fn advance_to(t: u64) {
    let h = handle();

    let due: Vec<Waker> = {
        let mut c = h.lock().unwrap();

        if t > c.now {
            c.now = t;
        }

        let now = c.now;
        let mut due = Vec::new();
        let mut i = 0;

        while i < c.wakes.len() {
            if c.wakes[i].0 <= now {
                due.push(c.wakes.swap_remove(i).1);
            } else {
                i += 1;
            }
        }

        due
    };

    for w in due {
        w.wake();
    }
}

pub fn advance_by(us: u64) {
    let t = now().saturating_add(us);

    advance_to(t);
}
