//! Engine A2 — yield-level schedules. Every party (1..3 application tasks, the transmit task, the
//! receive task, the "world" that moves the clock) is an OS thread; only the thread holding the
//! baton runs, and it hands the baton back at every verif-hooks yield point. Which party runs next
//! is decided by a generated / enumerated schedule. Only sequentially-consistent interleavings of
//! the instrumented points are explored.

use crate::{
    core::{CaseInfo, Fail},
    pdusim::{PushSpec, Retry, TxOutcome},
    storage::make_storage,
    util::{CountWaker, bytes_from_seed, hex, waker_of},
    vclock,
    wire::{self, RefDatagram},
};
use ethercrab::{
    PduLoop, PduRx, PduTx,
    error::{Error, PduError, TimeoutError},
    verif::{self, point},
};
use serde::{Deserialize, Serialize};
use std::{
    cell::RefCell,
    collections::{BTreeMap, BTreeSet},
    future::Future,
    sync::{
        Arc, Condvar, Mutex,
        atomic::{AtomicBool, AtomicU64, Ordering},
    },
    task::{Context, Poll},
    time::Duration,
};

// ---------------------------------------------------------------------------------------------
// Scenario description
// ---------------------------------------------------------------------------------------------

#[derive(Serialize, Deserialize, Clone, Debug, PartialEq, Eq, Hash)]
pub struct ReqScript {
    pub pushes: Vec<PushSpec>,
    /// Drop the frame instead of marking it sendable.
    pub drop_unsent: bool,
    /// Read through the datagram iterator instead of `first_pdu`.
    pub iter_mode: bool,
    /// Keep the response view while issuing the next request.
    pub hold_view: bool,
    /// Abandon (drop) the future after this many `Pending` polls (C06 only).
    pub abandon_after: Option<u8>,
}

#[derive(Serialize, Deserialize, Clone, Debug, PartialEq, Eq, Hash)]
pub enum RxAction {
    Genuine,
    /// Deliver the response twice in a row.
    Duplicate,
    /// Never deliver (lost).
    Lose,
}

#[derive(Serialize, Deserialize, Clone, Debug, PartialEq, Eq, Hash)]
pub struct Scenario {
    pub slots: u8,
    pub frame_size: u16,
    pub retry: Retry,
    pub timeout_us: u32,
    pub tasks: Vec<Vec<ReqScript>>,
    /// Outcome of the k-th transmission attempt (cyclic).
    pub tx_outcomes: Vec<TxOutcome>,
    /// What the network does with the k-th transmitted frame (cyclic).
    pub rx_plan: Vec<RxAction>,
    /// The world party advances the clock by these amounts, one per step it is scheduled.
    pub world: Vec<u32>,
}

/// How the next party is chosen.
#[derive(Serialize, Deserialize, Clone, Debug, PartialEq, Eq, Hash)]
pub enum Schedule {
    /// Default policy (keep running the current party; else lowest id) with pre-emptions at the
    /// given `(step, party)` points.
    Preempt(Vec<(u32, u8)>),
    /// Uniformly random choice among runnable parties at every step.
    Random(u64),
    /// PCT: random priorities, `d` priority change points.
    Pct { seed: u64, changes: Vec<u32> },
}

#[derive(Serialize, Deserialize, Clone, Debug, PartialEq, Eq, Hash)]
pub struct Case {
    pub scenario: Scenario,
    pub schedule: Schedule,
}

// ---------------------------------------------------------------------------------------------
// Baton passing
// ---------------------------------------------------------------------------------------------

#[derive(Clone, Debug)]
enum Ev {
    Hook { point: u16, slot: u8, a: u32, b: u32 },
    /// The party waits until its wake counter is non-zero (or the scenario stops).
    WaitWake,
    /// The receive party waits for something on the wire.
    WaitWire,
    /// The world party is ready to advance the clock.
    WorldStep,
    /// A free-form note for the monitor / oracle.
    Note(Note),
    Done,
    Panicked(String),
}

#[derive(Clone, Debug)]
pub enum Note {
    AllocFailed,
    Allocated { slot: u8 },
    Completed { req: u32, ok: bool },
    Result(Result<(), Fail>),
    TimedOut { req: u32 },
    Abandoned { req: u32, slot: u8 },
    ViewDropped { slot: u8 },
    TxSeen { slot: u8, bytes: Vec<u8> },
}

struct AbortUnwind;

#[derive(Default)]
struct Tls {
    pending: Option<Ev>,
    abort: bool,
    stop: bool,
}

thread_local! {
    static TLS: RefCell<Tls> = RefCell::new(Tls::default());
}

fn stop_requested() -> bool {
    TLS.with(|t| t.borrow().stop)
}

/// Post an event to the scheduler and suspend until scheduled again.
fn yield_ev(ev: Ev) {
    if !crate::coro::in_coroutine() {
        return;
    }

    if TLS.with(|t| t.borrow().abort) {
        // Scenario is being torn down: do not suspend any more
        return;
    }

    TLS.with(|t| t.borrow_mut().pending = Some(ev));

    crate::coro::yield_now();

    if TLS.with(|t| t.borrow().abort) {
        std::panic::resume_unwind(Box::new(AbortUnwind));
    }
}

fn the_hook(point: u16, slot: u8, a: u32, b: u32) {
    yield_ev(Ev::Hook { point, slot, a, b });
}

fn note(n: Note) {
    yield_ev(Ev::Note(n));
}

fn wait_ev(ev: Ev) {
    yield_ev(ev);
}

/// Install the process-global hook dispatcher (idempotent).
pub fn install_hook() {
    verif::set_hook(Some(the_hook));
}

// ---------------------------------------------------------------------------------------------
// The wire
// ---------------------------------------------------------------------------------------------

#[derive(Default)]
struct Wire {
    /// Frames waiting to be delivered to the receive side.
    pending: Vec<Vec<u8>>,
    tx_count: usize,
}

/// The response content is a pure function of the transmitted datagram, so that every party can
/// compute it on its own.
pub fn response_for(dg: &wire::Datagram) -> (Vec<u8>, u16) {
    let seed = u64::from(dg.idx) * 7919 + u64::from(dg.code) * 31 + u64::from(dg.len) + dg.data.iter().fold(0u64, |a, b| a.wrapping_mul(131).wrapping_add(u64::from(*b)));

    (bytes_from_seed(seed, usize::from(dg.len)), (seed % 5) as u16)
}

fn response_frame(sent: &[u8]) -> Option<Vec<u8>> {
    let d = wire::decode_frame(sent).ok()?;
    let (data, wkc): (Vec<_>, Vec<_>) = d.datagrams.iter().map(response_for).unzip();

    Some(wire::make_response(sent, &data, &wkc))
}

// ---------------------------------------------------------------------------------------------
// Monitor (A3)
// ---------------------------------------------------------------------------------------------

#[derive(Clone, Copy, Debug, PartialEq, Eq, PartialOrd, Ord)]
enum Win {
    Builder,
    Tx,
    Rx,
    Reader,
}

const LEGAL: &[(u8, u8)] = &[
    (0, 1), // None -> Created
    (1, 2), // Created -> Sendable
    (1, 0), // Created -> None (dropped unsent)
    (2, 3), // Sendable -> Sending
    (3, 4), // Sending -> Sent
    (3, 2), // Sending -> Sendable (failed send)
    (4, 5), // Sent -> RxBusy
    (5, 6), // RxBusy -> RxDone
    (6, 7), // RxDone -> RxProcessing
    (7, 0), // RxProcessing -> None
];

/// Additional transitions that are legal once deadlines may expire / futures may be abandoned
/// (C06 domain): retry re-queues a sent frame, release frees the slot from any waiting state.
#[allow(dead_code)]
const LEGAL_C06: &[(u8, u8)] = &[(4, 2), (2, 2), (2, 0), (4, 0), (6, 0)];

pub struct Monitor {
    n: usize,
    elem_addr: Vec<u32>,
    /// Open windows per slot: (kind, party)
    open: Vec<Vec<(Win, usize)>>,
    state: Vec<u8>,
    pub events: u64,
    pub preempted_inside_window: bool,
    c06_domain: bool,
    pub first_violation: Option<Fail>,
    pub transitions_seen: BTreeSet<(u8, u8)>,
    /// C06 domain: the first unconditional state store that pulled a slot from under the transmit
    /// or receive side (`"<actual state>-><new state>"`).
    pub first_unsafe_store: Option<String>,
    /// First transmission per first-datagram index (retransmissions must be identical).
    first_tx: BTreeMap<u8, Vec<u8>>,
    /// Transmissions per first-datagram index and the number of retries the policy allows
    tx_count: BTreeMap<u8, u32>,
    pub retry_bound: Option<u32>,
}

impl Monitor {
    fn new(pdu_loop: &PduLoop<'_>, c06_domain: bool) -> Self {
        let n = verif::num_slots(pdu_loop);

        Self {
            n,
            elem_addr: (0..n).map(|i| verif::slot(pdu_loop, i).element_addr as u32).collect(),
            open: vec![Vec::new(); n],
            state: vec![0; n],
            events: 0,
            preempted_inside_window: false,
            c06_domain,
            first_violation: None,
            transitions_seen: BTreeSet::new(),
            first_unsafe_store: None,
            first_tx: BTreeMap::new(),
            tx_count: BTreeMap::new(),
            retry_bound: None,
        }
    }

    fn flag(&mut self, prop: &str, clause: &str, msg: String) {
        if self.first_violation.is_none() {
            self.first_violation = Some(Fail::new(format!("{prop}|{clause}"), msg));
        }
    }

    fn slot_of(&self, addr: u32) -> Option<usize> {
        self.elem_addr.iter().position(|a| *a == addr)
    }

    fn open_win(&mut self, slot: usize, w: Win, party: usize, at: &str) {
        if slot >= self.n {
            return;
        }

        if let Some((ow, op)) = self.open[slot].first().copied() {
            let clause = if self.c06_domain { "buffer-shared" } else { "two-parties-in-buffer" };

            self.flag(
                "C02",
                &format!("{clause}|{:?}+{:?}", ow.min(w), ow.max(w)),
                format!("{at}: party {party} enters slot {slot} as {w:?} while party {op} is still inside as {ow:?}"),
            );
        }

        self.open[slot].push((w, party));
    }

    fn close_win(&mut self, slot: usize, w: Win, party: usize) {
        if slot >= self.n {
            return;
        }

        if let Some(i) = self.open[slot].iter().position(|(ow, op)| *ow == w && *op == party) {
            self.open[slot].remove(i);
        }
    }

    fn close_all(&mut self, w: Win, party: usize) {
        for o in self.open.iter_mut() {
            o.retain(|(ow, op)| !(*ow == w && *op == party));
        }
    }

    fn need_win(&mut self, slot: usize, w: Win, party: usize, at: &str) {
        if slot >= self.n || self.c06_domain {
            // With expiry / abandonment in play only the consequences named by C06 are judged
            return;
        }

        if !self.open[slot].iter().any(|(ow, op)| *ow == w && *op == party) {
            self.flag(
                "C02",
                &format!("access-outside-ownership|{w:?}"),
                format!("{at}: party {party} touches the buffer of slot {slot} as {w:?} without owning it (owners: {:?})", self.open[slot]),
            );
        }
    }

    fn on_hook(&mut self, party: usize, point: u16, slot: u8, a: u32, b: u32, pdu_loop: &PduLoop<'_>) {
        self.events += 1;

        let s = usize::from(slot);

        if self.c06_domain {
            match point {
                point::MS_AFTER_STATE | point::CREATED_DROP_AFTER => self.close_win(s, Win::Builder, party),
                point::TX_AFTER_MARK | point::TX_PROBE => self.close_all(Win::Tx, party),
                point::RX_MARKED | point::RX_LOOKUP => self.close_all(Win::Rx, party),
                point::RXF_DROP_AFTER => self.close_win(s, Win::Reader, party),
                _ => {}
            }
        }

        match point {
            point::ALLOC_CLAIMED | point::ALLOC_INIT_DONE | point::PUSH_BEFORE_WRITE | point::PUSH_AFTER_WRITE | point::PUSH_AFTER_ADD | point::PUSH_DONE | point::MS_BEFORE_HEADER | point::MS_AFTER_HEADER => {
                self.need_win(s, Win::Builder, party, "frame building")
            }
            point::TX_CLAIMED | point::TX_BEFORE_BYTES | point::TX_AFTER_SEND => self.need_win(s, Win::Tx, party, "transmit"),
            point::RX_CLAIMED | point::RX_COPY_MID | point::RX_COPY_DONE => self.need_win(s, Win::Rx, party, "receive copy"),
            point::FIRST_PDU_START | point::FIRST_PDU_DONE | point::PDU_ITER_NEXT => self.need_win(s, Win::Reader, party, "response read"),
            point::STATE_AFTER => {
                let kind = b >> 16;
                let from = ((b >> 8) & 0xff) as u8;
                let to = (b & 0xff) as u8;

                if let Some(si) = self.slot_of(a) {
                    if kind == 0 || kind == 1 {
                        self.transitions_seen.insert((from, to));

                        let legal = LEGAL.contains(&(from, to)) || self.c06_domain;

                        if !legal {
                            self.flag(
                                "C02",
                                &format!("illegal-transition|{from}->{to}"),
                                format!("party {party} changed slot {si} from state {from} to {to}, which is not in the documented order"),
                            );
                        }

                        if self.c06_domain && kind == 0 {
                            // An unconditional store that takes the slot away from the transmit
                            // or receive side while it is inside the buffer
                            let actual = self.state[si];
                            let owner_inside = self.open[si].iter().any(|(w, p)| matches!(w, Win::Tx | Win::Rx) && *p != party);

                            // ... or that throws away a response that has just been received
                            let clobbers_response = actual == 6 && to == 2;

                            if (owner_inside || clobbers_response) && self.first_unsafe_store.is_none() {
                                self.first_unsafe_store = Some(format!("{actual}->{to}"));
                            }
                        }

                        if self.state[si] != from && !self.c06_domain {
                            self.flag(
                                "C02",
                                "state-tracking",
                                format!("slot {si}: transition {from}->{to} reported but the monitor saw it in state {}", self.state[si]),
                            );
                        }

                        self.state[si] = to;

                        // Ownership windows follow the claims / releases
                        let win_of = |st: u8| match st {
                            1 => Some(Win::Builder),
                            3 => Some(Win::Tx),
                            5 => Some(Win::Rx),
                            7 => Some(Win::Reader),
                            _ => None,
                        };

                        if self.c06_domain {
                            match (kind, win_of(to)) {
                                (1, Some(w)) => self.open_win(si, w, party, "claim"),
                                _ => {
                                    // The party's own transition out of its claim: it has left
                                    self.open[si].retain(|(_, op)| *op != party);
                                }
                            }
                        } else if let Some(w) = win_of(from) {
                            if !self.open[si].iter().any(|(ow, op)| *ow == w && *op == party) && !self.c06_domain {
                                self.flag(
                                    "C02",
                                    &format!("released-by-non-owner|{w:?}"),
                                    format!("party {party} moved slot {si} out of state {from} but party {:?} owns it", self.open[si]),
                                );
                            }

                            // Close whoever holds that kind of window
                            self.open[si].retain(|(ow, _)| *ow != w);
                        }

                        if !self.c06_domain {
                            if let Some(w) = win_of(to) {
                                self.open_win(si, w, party, "claim");
                            }
                        }
                    }
                }
            }
            _ => {}
        }

        // (iv) inspector agrees with the monitor
        for i in 0..self.n {
            let st = verif::slot(pdu_loop, i).state;

            if st != self.state[i] && point != point::STATE_BEFORE {
                // A state change is only visible to the monitor at STATE_AFTER; between the store
                // and that event no other party runs.
                if point != point::STATE_AFTER && !self.c06_domain {
                    self.flag(
                        "C02",
                        "state-tracking",
                        format!("slot {i} is in state {st} but the last reported state was {}", self.state[i]),
                    );
                    self.state[i] = st;
                }
            }
        }
    }
}

// ---------------------------------------------------------------------------------------------
// Outcome of one execution
// ---------------------------------------------------------------------------------------------

#[derive(Debug, Default, Clone)]
pub struct Outcome {
    pub steps: u32,
    /// For each step: (runnable parties bitmask, chosen party, default party)
    pub trace: Vec<(u16, u8, u8)>,
    pub hook_events: u64,
    pub completed_ok: u32,
    pub alloc_failed: u32,
    pub timeouts: u32,
    pub abandoned: u32,
    pub preemptions: u32,
    pub preempted_inside_window: bool,
    pub transitions_seen: BTreeSet<(u8, u8)>,
    pub tx_frames: u32,
    pub retransmissions: u32,
    pub clock_steps: u32,
    pub injected_inside_txrx: bool,
}

struct Chooser {
    schedule: Schedule,
    rng_state: u64,
    prio: Vec<u64>,
    next_change: usize,
}

impl Chooser {
    fn new(schedule: &Schedule, parties: usize) -> Self {
        let mut c = Self {
            schedule: schedule.clone(),
            rng_state: 0,
            prio: Vec::new(),
            next_change: 0,
        };

        match schedule {
            Schedule::Random(seed) => c.rng_state = *seed | 1,
            Schedule::Pct { seed, .. } => {
                c.rng_state = *seed | 1;
                c.prio = (0..parties).map(|_| 1000 + c.next_u64() % 1000).collect();
            }
            _ => {}
        }

        c
    }

    fn next_u64(&mut self) -> u64 {
        self.rng_state = crate::core::mix(self.rng_state, 0x51);

        self.rng_state
    }

    fn choose(&mut self, step: u32, runnable: &[usize], default: usize, world: Option<usize>) -> usize {
        // The world (clock) must not starve the other parties under random / PCT schedules:
        // it runs when nobody else can, and otherwise only as an occasional injection.
        let others: Vec<usize> = runnable.iter().copied().filter(|p| Some(*p) != world).collect();
        let world_runnable = world.map(|w| runnable.contains(&w)).unwrap_or(false);

        match &self.schedule {
            Schedule::Random(_) if world_runnable && !others.is_empty() => {
                let r = self.next_u64();

                if r % 8 == 0 {
                    return world.unwrap();
                }

                return others[((r >> 8) % others.len() as u64) as usize];
            }
            Schedule::Pct { changes, .. } if world_runnable && !others.is_empty() => {
                let changes = changes.clone();

                if self.next_change < changes.len() && changes[self.next_change] <= step {
                    self.next_change += 1;

                    return world.unwrap();
                }

                return *others.iter().max_by_key(|p| self.prio[**p]).unwrap();
            }
            _ => {}
        }

        match &self.schedule {
            Schedule::Preempt(points) => points
                .iter()
                .find(|(s, _)| *s == step)
                .map(|(_, p)| usize::from(*p))
                .filter(|p| runnable.contains(p))
                .unwrap_or(default),
            Schedule::Random(_) => {
                let r = self.next_u64();

                runnable[(r % runnable.len() as u64) as usize]
            }
            Schedule::Pct { changes, .. } => {
                let changes = changes.clone();

                if self.next_change < changes.len() && changes[self.next_change] == step {
                    // Lower the priority of the currently highest runnable party
                    let top = *runnable.iter().max_by_key(|p| self.prio[**p]).unwrap();

                    self.prio[top] = self.next_change as u64;
                    self.next_change += 1;
                }

                *runnable.iter().max_by_key(|p| self.prio[**p]).unwrap()
            }
        }
    }
}

// ---------------------------------------------------------------------------------------------
// Execution
// ---------------------------------------------------------------------------------------------

#[derive(Clone, Copy, PartialEq, Eq, Debug)]
enum PState {
    /// Blocked at a yield point in the middle of an operation: always runnable.
    AtHook,
    WaitWake,
    WaitWire,
    WorldStep,
    Done,
}

pub struct RunConfig {
    /// Property whose domain applies: "C02"/"C01" (no expiry, no abandonment) or "C06".
    pub c06_domain: bool,
}

/// Execute one scenario under one schedule.
pub fn execute(case: &Case, cfg: &RunConfig) -> Result<Outcome, Fail> {
    install_hook();

    let sc = &case.scenario;
    let n = usize::from(sc.slots);
    let frame_size = usize::from(sc.frame_size);

    let storage = make_storage(n, frame_size).ok_or_else(|| Fail::new("harness", format!("no storage for ({n}, {frame_size})")))?;
    let (tx, rx, pdu_loop) = storage.split();
    let pdu_loop = &pdu_loop;

    let clock = vclock::reset();

    let n_tasks = sc.tasks.len();
    let _tx_id = n_tasks;
    let rx_id = n_tasks + 1;
    let world_id = n_tasks + 2;
    let has_world = cfg.c06_domain && !sc.world.is_empty();
    let parties = n_tasks + 2 + usize::from(has_world);

    let wire = Arc::new(Mutex::new(Wire::default()));
    let task_wakers: Vec<Arc<CountWaker>> = (0..n_tasks).map(|_| CountWaker::new()).collect();
    let tx_waker = CountWaker::new();

    let mut monitor = Monitor::new(pdu_loop, cfg.c06_domain);

    monitor.retry_bound = match sc.retry {
        Retry::None => Some(0),
        Retry::Count(n) => Some(u32::from(n)),
        Retry::Forever => None,
    };
    let mut outcome = Outcome::default();
    let mut chooser = Chooser::new(&case.schedule, parties);

    TLS.with(|t| *t.borrow_mut() = Tls::default());

    let _ = clock;

    let mut tx = tx;
    let mut rx = rx;

    let result: Result<(), Fail> = {
        let mut coros: Vec<crate::coro::Coro> = Vec::with_capacity(parties);

        // ---- application tasks
        for (ti, script) in sc.tasks.iter().enumerate() {
            let waker = task_wakers[ti].clone();
            let timeout = Duration::from_micros(u64::from(sc.timeout_us));
            let retries = sc.retry.count();

            coros.push(crate::coro::Coro::new(Box::new(move || {
                app_task(ti, script, pdu_loop, &waker, timeout, retries);
            })));
        }

        // ---- transmit task
        {
            let wire = wire.clone();
            let tx_waker = tx_waker.clone();
            let outcomes = sc.tx_outcomes.clone();
            let tx = &mut tx;

            coros.push(crate::coro::Coro::new(Box::new(move || tx_task(tx, pdu_loop, &wire, &tx_waker, &outcomes))));
        }

        // ---- receive task
        {
            let wire = wire.clone();
            let plan = sc.rx_plan.clone();
            let rx = &mut rx;

            coros.push(crate::coro::Coro::new(Box::new(move || rx_task(rx, &wire, &plan))));
        }

        // ---- world
        if has_world {
            let steps = sc.world.clone();

            coros.push(crate::coro::Coro::new(Box::new(move || {
                for us in steps.iter().cycle() {
                    if stop_requested() {
                        break;
                    }

                    wait_ev(Ev::WorldStep);
                    vclock::advance_by(u64::from(*us));
                }
            })));
        }

        // ---- scheduler
        let mut pstate: Vec<Option<PState>> = vec![None; parties];
        let mut fatal: Option<Fail> = None;
        let mut last_abandon_inside = false;

        // Resume `p` and collect what it reports
        let mut step = |p: usize,
                        coros: &mut Vec<crate::coro::Coro>,
                        pstate: &mut Vec<Option<PState>>,
                        monitor: &mut Monitor,
                        outcome: &mut Outcome,
                        fatal: &mut Option<Fail>,
                        last_abandon_inside: &mut bool| {
            coros[p].resume();

            let ev = if coros[p].is_done() {
                match coros[p].take_panic() {
                    Some(payload) if payload.downcast_ref::<AbortUnwind>().is_none() => {
                        Ev::Panicked(crate::core::take_last_panic().unwrap_or_else(|| "panic".into()))
                    }
                    _ => Ev::Done,
                }
            } else {
                TLS.with(|t| t.borrow_mut().pending.take()).unwrap_or(Ev::Done)
            };

            apply_event(p, ev, pstate, monitor, outcome, pdu_loop, fatal, last_abandon_inside);
        };

        // Start parties one after another so each gets to its first yield point
        for p in 0..parties {
            step(p, &mut coros, &mut pstate, &mut monitor, &mut outcome, &mut fatal, &mut last_abandon_inside);
        }

        let mut current: Option<usize> = None;
        let max_steps = 20_000u32;

        while fatal.is_none() && monitor.first_violation.is_none() {
            let all_tasks_done = (0..n_tasks).all(|t| pstate[t] == Some(PState::Done));

            // Runnable set
            let wire_pending = !wire.lock().unwrap().pending.is_empty();
            let mut runnable: Vec<usize> = Vec::new();

            for p in 0..parties {
                let r = match pstate[p] {
                    Some(PState::AtHook) => true,
                    Some(PState::WaitWake) => {
                        if p < n_tasks {
                            task_wakers[p].count() > 0
                        } else {
                            tx_waker.count() > 0
                        }
                    }
                    Some(PState::WaitWire) => wire_pending,
                    Some(PState::WorldStep) => !all_tasks_done,
                    Some(PState::Done) | None => false,
                };

                if r {
                    runnable.push(p);
                }
            }

            if all_tasks_done {
                // Let TX/RX finish whatever they are in the middle of, then stop.
                let mid: Vec<usize> = (n_tasks..parties).filter(|p| pstate[*p] == Some(PState::AtHook)).collect();

                if mid.is_empty() {
                    break;
                }

                runnable = mid;
            }

            if has_world && runnable == [world_id] && vclock::next_deadline().is_none() {
                // Moving the clock cannot wake anybody: nothing will ever happen again.
                runnable.clear();
            }

            if runnable.is_empty() {
                let waiting: Vec<usize> = (0..n_tasks).filter(|t| pstate[*t] == Some(PState::WaitWake)).collect();
                let states: Vec<u8> = (0..n).map(|i| verif::slot(pdu_loop, i).state).collect();

                let rxdone = states.iter().any(|s| *s == 6);

                if rxdone {
                    fatal = Some(Fail::new(
                        "C01|lost-wakeup",
                        format!("tasks {waiting:?} wait forever although a response has been received (slot states {states:?}): the wake-up was lost"),
                    ));
                } else if cfg.c06_domain {
                    fatal = Some(Fail::new(
                        "C06|request-hangs",
                        format!("tasks {waiting:?} wait forever: no response will arrive, the clock cannot move any further and no deadline wake-up is pending (slot states {states:?})"),
                    ));
                } else {
                    fatal = Some(Fail::new(
                        "C01|request-never-completes",
                        format!("tasks {waiting:?} wait forever (slot states {states:?}) although every transmitted frame was answered"),
                    ));
                }

                break;
            }

            // Default policy: keep running the current party until it blocks, then the lowest
            // numbered runnable one; the world (clock) only moves when nobody else can run.
            let default = match current {
                Some(c) if runnable.contains(&c) && !(has_world && c == world_id && runnable.len() > 1) => c,
                _ => runnable[0],
            };

            let chosen = chooser.choose(outcome.steps, &runnable, default, if has_world { Some(world_id) } else { None });

            if chosen != default {
                outcome.preemptions += 1;

                // Pre-empted a party in the middle of an access window?
                if let Some(c) = current {
                    if monitor.open.iter().any(|w| w.iter().any(|(_, p)| *p == c)) {
                        outcome.preempted_inside_window = true;
                    }
                }
            }

            let mask = runnable.iter().fold(0u16, |m, p| m | (1 << p));

            outcome.trace.push((mask, chosen as u8, default as u8));
            outcome.steps += 1;

            if outcome.steps > max_steps {
                fatal = Some(Fail::new("harness|step-limit", "scenario exceeded the step limit"));
                break;
            }

            // World step bookkeeping
            if has_world && chosen == world_id {
                outcome.clock_steps += 1;

                // Is a TX or RX window open right now (expiry lands inside it)?
                if monitor.open.iter().any(|w| w.iter().any(|(k, _)| matches!(k, Win::Tx | Win::Rx))) {
                    outcome.injected_inside_txrx = true;
                }
            }

            current = Some(chosen);

            step(chosen, &mut coros, &mut pstate, &mut monitor, &mut outcome, &mut fatal, &mut last_abandon_inside);
        }

        if last_abandon_inside {
            outcome.injected_inside_txrx = true;
        }

        // Tear down: unwind every party that is still suspended
        TLS.with(|t| {
            let mut t = t.borrow_mut();

            t.stop = true;
            t.abort = true;
        });

        // A clean run unwinds its suspended parties so that their destructors run. A failing run
        // abandons them instead: with the shared state already inconsistent, a destructor of the
        // code under test may panic during that unwinding, which would abort the process.
        if fatal.is_none() && monitor.first_violation.is_none() {
            for c in coros.iter_mut() {
                if !c.is_done() {
                    c.resume();
                }
            }
        }

        drop(coros);

        TLS.with(|t| *t.borrow_mut() = Tls::default());

        let mut result = match (fatal, monitor.first_violation.take()) {
            (Some(f), _) => Err(f),
            (None, Some(v)) => Err(v),
            (None, None) => Ok(()),
        };

        // Once deadlines may expire / requests may be abandoned, every consequence is C06's
        if cfg.c06_domain {
            if let (Err(f), Some(u)) = (&mut result, &monitor.first_unsafe_store) {
                if !f.signature.starts_with("harness") {
                    f.message = format!("after the unconditional state store {u} took the slot from under the transmit/receive side: [{}] {}", f.signature, f.message);
                    f.signature = format!("C06|after-unsafe-store|{u}");
                }
            }

            if let Err(f) = &mut result {
                for p in ["C01|", "C02|", "C03|", "C04|"] {
                    if let Some(rest) = f.signature.strip_prefix(p) {
                        f.signature = format!("C06|{rest}");
                        break;
                    }
                }
            }
        }

        result
    };

    outcome.hook_events = monitor.events;
    outcome.transitions_seen = monitor.transitions_seen.clone();
    outcome.preempted_inside_window |= monitor.preempted_inside_window;

    result?;

    // Quiescence: with all tasks finished normally, every slot must be free again
    for i in 0..n {
        let st = verif::slot(pdu_loop, i).state;

        if st != 0 {
            let prop = if cfg.c06_domain { "C06" } else { "C03" };

            if let (true, Some(u)) = (cfg.c06_domain, &monitor.first_unsafe_store) {
                return Err(Fail::new(
                    format!("C06|after-unsafe-store|{u}"),
                    format!("after the unconditional state store {u} took the slot from under the transmit/receive side: all tasks finished and dropped their handles but slot {i} is left in state {st} for good"),
                ));
            }

            return Err(Fail::new(
                format!("{prop}|slot-lost-at-quiescence"),
                format!("all tasks finished and dropped their handles but slot {i} is left in state {st}"),
            ));
        }
    }

    Ok(outcome)
}

#[allow(clippy::too_many_arguments)]
fn apply_event(
    id: usize,
    ev: Ev,
    pstate: &mut [Option<PState>],
    monitor: &mut Monitor,
    outcome: &mut Outcome,
    pdu_loop: &PduLoop<'_>,
    fatal: &mut Option<Fail>,
    abandon_inside: &mut bool,
) {
    if std::env::var_os("VERIF_A2_TRACE").is_some() {
        let states: Vec<(u8, u16)> = (0..monitor.n).map(|i| { let s = verif::slot(pdu_loop, i); (s.state, s.first_pdu) }).collect();

        eprintln!("step {:4} party {id} {ev:?} slots={states:?}", outcome.steps);
    }

    match ev {
        Ev::Hook { point, slot, a, b } => {
            pstate[id] = Some(PState::AtHook);
            monitor.on_hook(id, point, slot, a, b, pdu_loop);
        }
        Ev::WaitWake => pstate[id] = Some(PState::WaitWake),
        Ev::WaitWire => {
            pstate[id] = Some(PState::WaitWire);

            if monitor.c06_domain {
                monitor.close_all(Win::Rx, id);
            }
        }
        Ev::WorldStep => pstate[id] = Some(PState::WorldStep),
        Ev::Done => pstate[id] = Some(PState::Done),
        Ev::Panicked(msg) => {
            pstate[id] = Some(PState::Done);

            let site = crate::core::panic_site(&msg);

            *fatal = Some(if crate::core::is_repo_site(&site) {
                let prop = if monitor.c06_domain { "C06" } else { "C02" };

                Fail::new(format!("{prop}|panic|{site}"), format!("party {id} panicked: {msg}"))
            } else {
                Fail::new(format!("harness-panic|{site}"), format!("party {id} panicked: {msg}"))
            });
        }
        Ev::Note(n) => {
            pstate[id] = Some(PState::AtHook);

            match n {
                Note::AllocFailed => outcome.alloc_failed += 1,
                Note::Allocated { .. } => {}
                Note::Completed { ok, .. } => {
                    if ok {
                        outcome.completed_ok += 1;
                    }
                }
                Note::Result(Err(f)) => {
                    if fatal.is_none() {
                        *fatal = Some(f);
                    }
                }
                Note::Result(Ok(())) => {}
                Note::TimedOut { .. } => outcome.timeouts += 1,
                Note::Abandoned { slot, .. } => {
                    outcome.abandoned += 1;

                    if usize::from(slot) < monitor.n && monitor.open[usize::from(slot)].iter().any(|(k, _)| matches!(k, Win::Tx | Win::Rx)) {
                        *abandon_inside = true;
                    }
                }
                Note::ViewDropped { .. } => {}
                Note::TxSeen { bytes, slot: went_out } => {
                    outcome.tx_frames += 1;

                    if bytes.len() > 17 {
                        let idx = bytes[17];

                        match monitor.first_tx.get(&idx) {
                            None => {
                                if went_out == 1 {
                                    monitor.tx_count.insert(idx, 1);
                                }

                                monitor.first_tx.insert(idx, bytes);
                            }
                            Some(first) => {
                                outcome.retransmissions += 1;

                                // Scenarios use each index for one request only (fewer than 256
                                // requests), so more transmissions than 1 + retries is a policy
                                // violation
                                let c = monitor.tx_count.entry(idx).or_insert(0);

                                if went_out == 1 {
                                    *c += 1;
                                }

                                if let Some(bound) = monitor.retry_bound {
                                    if *c > bound + 1 && fatal.is_none() {
                                        *fatal = Some(Fail::new("C06|too-many-transmissions", format!("a request was transmitted {c} times, the retry policy allows {} retries", bound)));
                                    }
                                }

                                if *first != bytes && fatal.is_none() {
                                    *fatal = Some(Fail::new(
                                        "C06|retransmit-differs",
                                        format!("a retransmission differs from the first transmission of the same request: first {} now {}", hex(first), hex(&bytes)),
                                    ));
                                }
                            }
                        }
                    }
                }
            }
        }
    }
}

fn expected_for(dgs: &[RefDatagram]) -> Vec<(Vec<u8>, u16)> {
    let frame = wire::encode_frame(dgs);
    let d = wire::decode_frame(&frame).expect("reference frame decodes");

    d.datagrams.iter().map(response_for).collect()
}

fn app_task<'a>(ti: usize, script: &[ReqScript], pdu_loop: &'a PduLoop<'a>, waker: &Arc<CountWaker>, timeout: Duration, retries: usize) {
    let w = waker_of(waker);
    let mut held_view: Option<(verif::ReceivedPdu<'a>, Vec<u8>, u8)> = None;

    for (ri, req) in script.iter().enumerate() {
        let req_id = (ti * 100 + ri) as u32;

        // Check a view held over from the previous request
        if let Some((v, expect, _slot)) = &held_view {
            if &v[..] != expect.as_slice() {
                note(Note::Result(Err(Fail::new(
                    "C01|view-changed",
                    format!("task {ti}: a held response view changed: now {} expected {}", hex(v), hex(expect)),
                ))));

                return;
            }
        }

        let mut frame = match verif::alloc_frame(pdu_loop) {
            Ok(f) => f,
            Err(Error::Pdu(PduError::SwapState)) => {
                note(Note::AllocFailed);

                continue;
            }
            Err(e) => {
                note(Note::Result(Err(Fail::new("C03|alloc-wrong-error", format!("{e:?}")))));

                return;
            }
        };

        let slot = frame.storage_slot_index();

        note(Note::Allocated { slot });

        let cap = verif::frame_data_len(pdu_loop) - 16;
        let mut consumed = 0;
        let mut dgs = Vec::new();
        let mut handles = Vec::new();

        for (i, p) in req.pushes.iter().enumerate() {
            let payload = bytes_from_seed(u64::from(p.seed) + (req_id as u64) * 977 + i as u64, usize::from(p.len));

            if consumed + payload.len() + 12 > cap {
                continue;
            }

            match frame.push_pdu(p.cmd.to_ethercrab(), &payload, None) {
                Ok(h) => {
                    consumed += payload.len() + 12;
                    dgs.push(RefDatagram {
                        code: p.cmd.code(),
                        idx: h.pdu_idx,
                        addr: p.cmd.addr_bytes(),
                        len: payload.len() as u16,
                        data: payload,
                    });
                    handles.push(h);
                }
                Err(e) => {
                    note(Note::Result(Err(Fail::new("C04|push-contract", format!("push that fits was refused: {e:?}")))));

                    return;
                }
            }
        }

        if req.drop_unsent || dgs.is_empty() {
            drop(frame);

            continue;
        }

        let expected = expected_for(&dgs);

        let mut fut = Box::pin(frame.mark_sendable(pdu_loop, timeout, retries));

        verif::wake_sender(pdu_loop);

        let mut pendings = 0u8;

        let received = loop {
            // Wake-ups from here on (also those arriving while the poll is in progress) must lead
            // to another poll.
            waker.take();

            let mut cx = Context::from_waker(&w);

            match fut.as_mut().poll(&mut cx) {
                Poll::Ready(r) => break Some(r),
                Poll::Pending => {
                    pendings = pendings.saturating_add(1);

                    if let Some(k) = req.abandon_after {
                        if pendings > k {
                            note(Note::Abandoned { req: req_id, slot });

                            break None;
                        }
                    }

                    wait_ev(Ev::WaitWake);
                }
            }
        };

        let Some(received) = received else {
            drop(fut);

            continue;
        };

        drop(fut);

        match received {
            Ok(frame) => {
                let res: Result<(), Fail> = (|| {
                    if req.iter_mode {
                        let mut n = 0;

                        for item in frame.into_pdu_iter() {
                            let pdu = item.map_err(|e| Fail::new("C01|iter-error", format!("task {ti} request {ri}: {e:?}")))?;

                            if n >= expected.len() || &pdu[..] != expected[n].0.as_slice() || verif::pdu_wkc(&pdu) != expected[n].1 {
                                return Err(Fail::new(
                                    "C01|wrong-data",
                                    format!("task {ti} request {ri} datagram {n}: got {} wkc {}, expected {:?}", hex(&pdu), verif::pdu_wkc(&pdu), expected.get(n).map(|e| (hex(&e.0), e.1))),
                                ));
                            }

                            n += 1;
                        }

                        if n != expected.len() {
                            return Err(Fail::new("C01|iter-too-few", format!("task {ti} request {ri}: {n} of {} datagrams", expected.len())));
                        }

                        Ok(())
                    } else {
                        let pdu = frame.first_pdu(handles[0]).map_err(|e| Fail::new("C01|first-pdu-error", format!("task {ti} request {ri}: {e:?}")))?;

                        if &pdu[..] != expected[0].0.as_slice() || verif::pdu_wkc(&pdu) != expected[0].1 {
                            return Err(Fail::new(
                                "C01|wrong-data",
                                format!("task {ti} request {ri}: got {} wkc {}, expected {} wkc {}", hex(&pdu), verif::pdu_wkc(&pdu), hex(&expected[0].0), expected[0].1),
                            ));
                        }

                        if req.hold_view {
                            held_view = Some((pdu, expected[0].0.clone(), slot));
                        } else {
                            held_view = None;
                            drop(pdu);
                        }

                        Ok(())
                    }
                })();

                let ok = res.is_ok();

                if let Err(f) = res {
                    note(Note::Result(Err(f)));

                    return;
                }

                note(Note::Completed { req: req_id, ok });
            }
            Err(Error::Timeout(TimeoutError::Pdu)) => {
                note(Note::TimedOut { req: req_id });
            }
            Err(e) => {
                note(Note::Result(Err(Fail::new(
                    "C01|request-failed",
                    format!("task {ti} request {ri} (slot {slot}) resolved to {e:?}"),
                ))));

                return;
            }
        }
    }

    drop(held_view);
}

fn tx_task(tx: &mut PduTx<'_>, _pdu_loop: &PduLoop<'_>, wire: &Arc<Mutex<Wire>>, tx_waker: &Arc<CountWaker>, outcomes: &[TxOutcome]) {
    let w = waker_of(tx_waker);

    loop {
        if stop_requested() {
            return;
        }

        tx_waker.take();
        tx.replace_waker(&w);

        match tx.next_sendable_frame() {
            Some(frame) => {
                let k = wire.lock().unwrap().tx_count;
                let outcome = if outcomes.is_empty() { TxOutcome::Ok } else { outcomes[k % outcomes.len()] };

                wire.lock().unwrap().tx_count += 1;

                let mut seen = Vec::new();

                let _ = frame.send_blocking(|b| {
                    seen = b.to_vec();

                    match outcome {
                        TxOutcome::Ok => Ok(b.len()),
                        TxOutcome::Partial(k) => Ok(usize::from(k) % b.len()),
                        TxOutcome::Err => Err(Error::SendFrame),
                    }
                });

                if outcome == TxOutcome::Ok {
                    wire.lock().unwrap().pending.push(seen.clone());
                }

                // `slot` carries whether the frame really went out
                note(Note::TxSeen { slot: u8::from(outcome == TxOutcome::Ok), bytes: seen });
            }
            None => wait_ev(Ev::WaitWake),
        }
    }
}

fn rx_task(rx: &mut PduRx<'_>, wire: &Arc<Mutex<Wire>>, plan: &[RxAction]) {
    let mut delivered = 0usize;

    loop {
        if stop_requested() {
            return;
        }

        let next = {
            let mut w = wire.lock().unwrap();

            if w.pending.is_empty() { None } else { Some(w.pending.remove(0)) }
        };

        match next {
            Some(sent) => {
                let action = if plan.is_empty() { RxAction::Genuine } else { plan[delivered % plan.len()].clone() };

                delivered += 1;

                match response_frame(&sent) {
                    Some(resp) => match action {
                        RxAction::Genuine => {
                            let _ = rx.receive_frame(&resp);
                        }
                        RxAction::Duplicate => {
                            let _ = rx.receive_frame(&resp);
                            let _ = rx.receive_frame(&resp);
                        }
                        RxAction::Lose => {}
                    },
                    None => {
                        // The transmitted frame is not even decodable: the C04 monitor reports it
                        note(Note::Result(Err(Fail::new(
                            "C04|malformed",
                            format!("transmitted frame is not well-formed: {}", hex(&sent)),
                        ))));

                        return;
                    }
                }
            }
            None => wait_ev(Ev::WaitWire),
        }
    }
}
