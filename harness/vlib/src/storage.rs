//! Type-erased construction of `PduStorage<N, DATA>` for generated `(N, DATA)` pairs.

use ethercrab::{PduLoop, PduRx, PduStorage, PduTx};

pub trait Storage: Send + Sync {
    fn split(&self) -> (PduTx<'_>, PduRx<'_>, PduLoop<'_>);
}

impl<const N: usize, const DATA: usize> Storage for PduStorage<N, DATA> {
    fn split(&self) -> (PduTx<'_>, PduRx<'_>, PduLoop<'_>) {
        self.try_split().expect("fresh storage splits once")
    }
}

macro_rules! ladder_match {
    ($n:expr, $d:expr; $( ($N:literal, $D:literal) ),* $(,)?) => {
        match ($n, $d) {
            $( ($N, $D) => Some(Box::new(PduStorage::<$N, $D>::new()) as Box<dyn Storage>), )*
            _ => None,
        }
    };
}

/// A fresh heap-allocated storage with `n` slots of `data` bytes each, if that pair is in the
/// ladder.
pub fn make_storage(n: usize, data: usize) -> Option<Box<dyn Storage>> {
    include!("ladder_pairs.rs")
}

/// The frame sizes available for multi-slot storages.
pub const LADDER: &[usize] = &[
    28, 29, 30, 32, 36, 40, 42, 44, 45, 46, 48, 58, 60, 64, 72, 80, 100, 128, 200, 256, 400, 512,
    800, 1100, 1500, 1514,
];

pub const SLOT_COUNTS: &[usize] = &[1, 2, 4, 8, 16];

pub fn ladder_has(n: usize, data: usize) -> bool {
    (n == 1 && (28..=1514).contains(&data)) || (SLOT_COUNTS.contains(&n) && LADDER.contains(&data))
}
