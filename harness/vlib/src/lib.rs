pub mod c04;
pub mod core;
pub mod r#gen;
pub mod storage;
pub mod util;
pub mod vclock;
pub mod wire;
