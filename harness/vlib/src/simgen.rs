//! Coherent device / network generators for the simulator: a device's EEPROM, object dictionary,
//! sync managers, PDOs and wiring all describe the same device.

use crate::{
    sii::{Category, GeneralDesc, PdoDesc, PdoEntryDesc, SiiDesc, SmDesc},
    simnet::{DcKind, DeviceSpec, Esm, NetSpec, ObjBehaviour, Object, UploadPolicy},
};
use proptest::prelude::*;
use serde::{Deserialize, Serialize};

/// High level description from which a consistent `DeviceSpec` is built.
#[derive(Serialize, Deserialize, Clone, Debug, PartialEq, Eq, Hash)]
pub struct DevKnobs {
    pub name: Vec<u8>,
    pub long_name: Vec<u8>,
    pub vendor: u32,
    pub product: u32,
    pub revision: u32,
    pub serial: u32,
    pub alias: u16,
    pub stale_addr: u16,
    pub mailbox: bool,
    pub coe: bool,
    pub mbx_size: u16,
    /// Bit lengths of the entries of each PDO of each output sync manager
    pub out_sms: Vec<Vec<Vec<u8>>>,
    /// Same for inputs
    pub in_sms: Vec<Vec<Vec<u8>>>,
    pub fmmu_ex: bool,
    pub dc: DcKind,
    pub chunk8: bool,
    pub sii_busy_polls: u8,
    pub strict: bool,
    pub unknown_cats: u8,
    pub input_seed: u64,
    pub clock_offset: u64,
    pub link_delay: u32,
    /// Number of downstream ports (0..=3) this device offers
    pub down_ports: u8,
    pub complete_access: bool,
    /// (PDO index, factor): the device is configured for oversampling, its sync managers are
    /// that much longer
    #[serde(default)]
    pub oversampling: Vec<(u16, u16)>,
    /// Process data sync managers of one direction are not physically adjacent (each sits in its
    /// own 3-buffer area)
    #[serde(default)]
    pub noncontig: bool,
    /// The SII names no order string: the MainDevice makes a name up from the identity
    #[serde(default)]
    pub unnamed: bool,
}

pub fn bits_to_bytes(pdos: &[Vec<u8>]) -> usize {
    let bits: usize = pdos.iter().flatten().map(|b| usize::from(*b)).sum();

    bits.div_ceil(8)
}

impl DevKnobs {
    pub fn out_len(&self) -> usize {
        self.out_sms.iter().map(|sm| bits_to_bytes(sm)).sum()
    }

    pub fn in_len(&self) -> usize {
        self.in_sms.iter().map(|sm| bits_to_bytes(sm)).sum()
    }

    /// Byte length of a sync manager holding `pdos` (first PDO index `base`) with oversampling.
    pub fn sm_len(&self, pdos: &[Vec<u8>], base: u16) -> usize {
        let bits: usize = pdos
            .iter()
            .enumerate()
            .map(|(pi, entries)| {
                let idx = base + pi as u16;
                let f = self.oversampling.iter().find(|(p, _)| *p == idx).map(|(_, f)| usize::from(*f)).unwrap_or(1);

                entries.iter().map(|b| usize::from(*b)).sum::<usize>() * f
            })
            .sum();

        bits.div_ceil(8)
    }

    /// Real process data lengths (with oversampling)
    pub fn out_len_real(&self) -> usize {
        self.out_sms.iter().enumerate().map(|(k, sm)| self.sm_len(sm, 0x1600 + (k * 16) as u16)).sum()
    }

    pub fn in_len_real(&self) -> usize {
        self.in_sms.iter().enumerate().map(|(k, sm)| self.sm_len(sm, 0x1a00 + (k * 16) as u16)).sum()
    }

    /// Build the device. `parent`, and which ports are open, come from the topology.
    pub fn build(&self, parent: Option<usize>, ports: [bool; 4], esm: [Esm; 4], upload: UploadPolicy, extra_od: Vec<Object>) -> DeviceSpec {
        let mut sms: Vec<SmDesc> = Vec::new();
        let mut next = 0x1000u16;

        if self.mailbox {
            // SM0: mailbox out (master writes), SM1: mailbox in
            sms.push(SmDesc { start: next, len: self.mbx_size, mode: 2, dir: 1, ctl_flags: 2, status: 0, enable: 1, usage: 1 });
            next += self.mbx_size.max(1).next_multiple_of(0x80);
            sms.push(SmDesc { start: next, len: self.mbx_size, mode: 2, dir: 0, ctl_flags: 2, status: 0, enable: 1, usage: 2 });
            next += self.mbx_size.max(1).next_multiple_of(0x80);
        }

        let first_pd_sm = sms.len();
        let mut rx_pdos: Vec<PdoDesc> = Vec::new();
        let mut tx_pdos: Vec<PdoDesc> = Vec::new();
        let mut od: Vec<Object> = Vec::new();

        // Outputs: physically contiguous sync managers (they may share one FMMU)
        for (k, pdos) in self.out_sms.iter().enumerate() {
            let smi = sms.len();
            let len = bits_to_bytes(pdos) as u16;
            let real = self.sm_len(pdos, 0x1600 + (k * 16) as u16) as u16;

            sms.push(SmDesc { start: next, len, mode: 0, dir: 1, ctl_flags: 6, status: 0, enable: 1, usage: 3 });
            next += if self.noncontig { (real * 3).next_multiple_of(8) + 8 } else { real };

            let mut assign: Vec<Vec<u8>> = vec![vec![pdos.len() as u8]];

            for (pi, entries) in pdos.iter().enumerate() {
                let index = 0x1600 + (k * 16 + pi) as u16;

                rx_pdos.push(PdoDesc {
                    index,
                    sm: smi as u8,
                    dc_sync: 0,
                    name_idx: 0,
                    flags: 0,
                    entries: entries.iter().enumerate().map(|(ei, b)| PdoEntryDesc { index: 0x7000 + (pi as u16) * 16, sub: ei as u8 + 1, name_idx: 0, data_type: 0, bits: *b, flags: 0 }).collect(),
                });

                assign.push(index.to_le_bytes().to_vec());

                let mut map: Vec<Vec<u8>> = vec![vec![entries.len() as u8]];

                for (ei, b) in entries.iter().enumerate() {
                    // u32 mapping: bit length (low byte), sub-index, index
                    map.push(vec![*b, ei as u8 + 1, 0x00, 0x70 + pi as u8]);
                }

                od.push(Object { index, subs: map, behaviour: ObjBehaviour::Normal });
            }

            od.push(Object { index: 0x1c10 + smi as u16, subs: assign, behaviour: ObjBehaviour::Normal });
        }

        // keep inputs apart from outputs
        next = next.next_multiple_of(0x80).max(next + 2);

        for (k, pdos) in self.in_sms.iter().enumerate() {
            let smi = sms.len();
            let len = bits_to_bytes(pdos) as u16;
            let real = self.sm_len(pdos, 0x1a00 + (k * 16) as u16) as u16;

            sms.push(SmDesc { start: next, len, mode: 0, dir: 0, ctl_flags: 2, status: 0, enable: 1, usage: 4 });
            next += if self.noncontig { (real * 3).next_multiple_of(8) + 8 } else { real };

            let mut assign: Vec<Vec<u8>> = vec![vec![pdos.len() as u8]];

            for (pi, entries) in pdos.iter().enumerate() {
                let index = 0x1a00 + (k * 16 + pi) as u16;

                tx_pdos.push(PdoDesc {
                    index,
                    sm: smi as u8,
                    dc_sync: 0,
                    name_idx: 0,
                    flags: 0,
                    entries: entries.iter().enumerate().map(|(ei, b)| PdoEntryDesc { index: 0x6000 + (pi as u16) * 16, sub: ei as u8 + 1, name_idx: 0, data_type: 0, bits: *b, flags: 0 }).collect(),
                });

                assign.push(index.to_le_bytes().to_vec());

                let mut map: Vec<Vec<u8>> = vec![vec![entries.len() as u8]];

                for (ei, b) in entries.iter().enumerate() {
                    map.push(vec![*b, ei as u8 + 1, 0x00, 0x60 + pi as u8]);
                }

                od.push(Object { index, subs: map, behaviour: ObjBehaviour::Normal });
            }

            od.push(Object { index: 0x1c10 + smi as u16, subs: assign, behaviour: ObjBehaviour::Normal });
        }

        let _ = first_pd_sm;

        // Device name object
        od.push(Object { index: 0x1008, subs: vec![self.name.clone()], behaviour: ObjBehaviour::Normal });
        od.extend(extra_od);
        od.sort_by_key(|o| o.index);
        od.dedup_by_key(|o| o.index);

        // FMMU usage: outputs, inputs, mailbox status
        let mut fmmus = Vec::new();

        // adjacent sync managers share one FMMU per direction; otherwise there is one per SM
        for _ in 0..if self.noncontig { self.out_sms.len() } else { self.out_sms.len().min(1) } {
            fmmus.push(1u8);
        }

        for _ in 0..if self.noncontig { self.in_sms.len() } else { self.in_sms.len().min(1) } {
            fmmus.push(2);
        }

        if self.mailbox {
            fmmus.push(3);
        }

        let mut categories: Vec<Category> = Vec::new();
        let strings = vec![self.name.clone(), self.long_name.clone(), b"group".to_vec()];

        for k in 0..self.unknown_cats.min(2) {
            categories.push(Category::Unknown { typ: 0x2000 + u16::from(k), words: vec![0x1234; 3 + usize::from(k)] });
        }

        categories.push(Category::Strings(strings));
        categories.push(Category::General(GeneralDesc {
            group_idx: 3,
            img_idx: 0,
            order_idx: if self.unnamed { 0 } else { 1 },
            name_idx: 2,
            coe_details: if self.coe { 0x01 | 0x04 | if self.complete_access { 0x20 } else { 0 } } else { 0 },
            foe: false,
            eoe: false,
            flags: 0,
            ebus_current: 120,
            tail: vec![0; 18],
        }));

        if self.unknown_cats > 2 {
            categories.push(Category::Unknown { typ: 60, words: vec![0; 12] });
        }

        if !fmmus.is_empty() {
            categories.push(Category::Fmmu(fmmus));
        }

        if !sms.is_empty() {
            categories.push(Category::SyncM(sms.clone()));
        }

        if self.fmmu_ex {
            // one entry per process data SM, naming the SM it serves
            let ex: Vec<(u8, u8, u8)> = sms.iter().enumerate().filter(|(_, s)| s.usage >= 3).map(|(i, _)| (0, i as u8, 0)).collect();

            if !ex.is_empty() {
                categories.push(Category::FmmuEx(ex));
            }
        }

        if !tx_pdos.is_empty() {
            categories.push(Category::TxPdo(tx_pdos));
        }

        if !rx_pdos.is_empty() {
            categories.push(Category::RxPdo(rx_pdos));
        }

        let mut sii = SiiDesc {
            cfg: [0x0080, 0, 0, 0],
            alias: self.alias,
            reserved: [0, 0],
            vendor: self.vendor,
            product: self.product,
            revision: self.revision,
            serial: self.serial,
            boot: [0; 8],
            mbx_recv_off: if self.mailbox { 0x1000 } else { 0 },
            mbx_recv_size: if self.mailbox { self.mbx_size } else { 0 },
            mbx_send_off: if self.mailbox { 0x1000 + self.mbx_size.max(1).next_multiple_of(0x80) } else { 0 },
            mbx_send_size: if self.mailbox { self.mbx_size } else { 0 },
            mbx_protocols: if self.mailbox { if self.coe { 0x04 } else { 0x08 } } else { 0 },
            size_kbit_m1: 0,
            version: 1,
            categories,
        };

        sii.size_kbit_m1 = (sii.content_len().div_ceil(128).max(8) as u16) - 1;

        DeviceSpec {
            sii,
            chunk8: self.chunk8,
            sii_busy_polls: self.sii_busy_polls,
            dc: self.dc,
            ports,
            stale_station_addr: self.stale_addr,
            esm,
            strict: self.strict,
            oversampling: self.oversampling.clone(),
            od,
            upload,
            input_seed: self.input_seed,
            clock_offset: self.clock_offset,
            link_delay: self.link_delay,
            parent,
            dl_links_override: None,
            port_times_override: None,
        }
    }
}

pub fn accept_all() -> [Esm; 4] {
    [Esm::Accept { after_polls: 0 }, Esm::Accept { after_polls: 0 }, Esm::Accept { after_polls: 0 }, Esm::Accept { after_polls: 0 }]
}

fn name_bytes() -> impl Strategy<Value = Vec<u8>> {
    prop_oneof![
        6 => prop::collection::vec(prop_oneof![0x41u8..0x5b, 0x30u8..0x3a, Just(b'-')], 1..12),
        1 => prop::collection::vec(prop_oneof![4 => 0x20u8..0x7f, 1 => 0x80u8..=0xff, 1 => Just(0u8)], 1..30),
        1 => prop::collection::vec(0x41u8..0x5b, 60..=64),
    ]
}

fn pdo_set(max_sms: usize, max_pdos: usize, max_entries: usize) -> impl Strategy<Value = Vec<Vec<Vec<u8>>>> {
    prop::collection::vec(
        prop::collection::vec(prop::collection::vec(prop_oneof![3 => prop::sample::select(vec![1u8, 8, 16, 32]), 2 => 1u8..=64], 1..=max_entries), 1..=max_pdos),
        0..=max_sms,
    )
}

#[derive(Clone, Debug)]
pub struct KnobRanges {
    pub max_sms: usize,
    pub max_pdos: usize,
    pub max_entries: usize,
    pub allow_dc: bool,
    pub strict_pct: u32,
}

impl Default for KnobRanges {
    fn default() -> Self {
        Self { max_sms: 2, max_pdos: 3, max_entries: 4, allow_dc: true, strict_pct: 30 }
    }
}

pub fn knobs(r: KnobRanges) -> impl Strategy<Value = DevKnobs> {
    let dc = if r.allow_dc {
        prop_oneof![2 => Just(DcKind::None), 1 => Just(DcKind::RefOnly), 2 => Just(DcKind::Bits32), 3 => Just(DcKind::Bits64)].boxed()
    } else {
        Just(DcKind::None).boxed()
    };

    (
        (name_bytes(), name_bytes(), any::<u32>(), any::<u32>(), any::<u32>(), any::<u32>(), any::<u16>()),
        (prop_oneof![2 => Just(0u16), 2 => 0x1000u16..0x1004, 1 => any::<u16>()], any::<bool>(), prop::bool::weighted(0.7), prop::sample::select(vec![16u16, 24, 32, 64, 128, 256])),
        (pdo_set(r.max_sms, r.max_pdos, r.max_entries), pdo_set(r.max_sms, r.max_pdos, r.max_entries), any::<bool>()),
        (dc, any::<bool>(), 0u8..3, 0u32..100, 0u8..4, any::<u64>(), any::<u64>(), 10u32..2000, any::<bool>()),
    )
        .prop_map(move |((name, long_name, vendor, product, revision, serial, alias), (stale_addr, mailbox, coe, mbx_size), (out_sms, in_sms, fmmu_ex), (dc, chunk8, sii_busy_polls, strict_roll, unknown_cats, input_seed, clock_offset, link_delay, complete_access))| DevKnobs {
            name,
            long_name,
            vendor,
            product,
            revision,
            serial,
            alias,
            stale_addr,
            mailbox,
            coe: mailbox && coe,
            mbx_size,
            out_sms,
            in_sms,
            fmmu_ex,
            dc,
            chunk8,
            sii_busy_polls,
            strict: strict_roll < r.strict_pct,
            unknown_cats,
            input_seed,
            clock_offset,
            link_delay,
            down_ports: 1,
            complete_access,
            oversampling: vec![],
            noncontig: false,
            unnamed: false,
        })
}

/// Topology: for each device its parent (None for the first) and open ports, given the number of
/// downstream ports each device offers. Devices are listed in frame processing order (depth
/// first, ports in order 3, 1, 2).
pub fn wire_tree(down_ports: &[u8]) -> Vec<(Option<usize>, [bool; 4])> {
    let n = down_ports.len();
    let mut out: Vec<(Option<usize>, [bool; 4])> = vec![(None, [true, false, false, false]); n];

    if n == 0 {
        return out;
    }

    // Depth-first assignment: device i attaches to the deepest device on the current path that
    // still has a free downstream port.
    let mut stack: Vec<(usize, u8)> = vec![(0, down_ports[0].min(3))]; // (device, free downstream ports)
    let mut used: Vec<u8> = vec![0; n];

    for i in 1..n {
        while matches!(stack.last(), Some((_, 0))) {
            stack.pop();
        }

        let p = match stack.last_mut() {
            Some((p, free)) => {
                *free -= 1;

                *p
            }
            // no free port anywhere: chain it to the previous device
            None => i - 1,
        };

        used[p] += 1;
        out[i].0 = Some(p);
        stack.push((i, down_ports[i].min(3)));
    }

    // Open exactly the ports in use (downstream ports fill in order 3, 1, 2); unused offered
    // ports stay closed (nothing plugged in)
    for i in 0..n {
        let mut ports = [true, false, false, false];

        for k in 0..usize::from(used[i]).min(3) {
            ports[[3usize, 1, 2][k]] = true;
        }

        out[i].1 = ports;
    }

    out
}

/// A network of `n` devices built from knobs.
pub fn build_net(knobs: &[DevKnobs], esms: &[[Esm; 4]], upload: &[UploadPolicy]) -> NetSpec {
    let down: Vec<u8> = knobs.iter().map(|k| k.down_ports).collect();
    let wiring = wire_tree(&down);

    NetSpec {
        devices: knobs
            .iter()
            .enumerate()
            .map(|(i, k)| {
                k.build(
                    wiring[i].0,
                    wiring[i].1,
                    esms.get(i).cloned().unwrap_or_else(accept_all),
                    upload.get(i).cloned().unwrap_or(UploadPolicy::Auto),
                    vec![],
                )
            })
            .collect(),
    }
}
