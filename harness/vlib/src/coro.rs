//! Minimal stackful coroutines on top of `ucontext` (glibc), so that all parties of a scenario
//! run on ONE OS thread and a hand-over costs well under a microsecond.
//!
//! Safety contract (upheld by `a2`): a `Coro` is created, resumed and dropped on one thread; the
//! closure never lets a panic escape (the trampoline catches it); a coroutine that is dropped
//! before it finished is simply abandoned (its stack memory is reused, destructors of values
//! living on it do not run) — `a2` always unwinds its parties before dropping them.

use std::{cell::Cell, cell::UnsafeCell, mem::MaybeUninit};

const STACK_SIZE: usize = 256 * 1024;

thread_local! {
    static MAIN_CTX: UnsafeCell<MaybeUninit<libc::ucontext_t>> = const { UnsafeCell::new(MaybeUninit::uninit()) };
    static CURRENT: Cell<*mut CoroInner> = const { Cell::new(std::ptr::null_mut()) };
    static STACK_POOL: UnsafeCell<Vec<Box<[MaybeUninit<u8>]>>> = const { UnsafeCell::new(Vec::new()) };
}

struct CoroInner {
    ctx: MaybeUninit<libc::ucontext_t>,
    entry: Option<Box<dyn FnOnce()>>,
    done: bool,
    panic: Option<Box<dyn std::any::Any + Send>>,
}

pub struct Coro {
    inner: Box<CoroInner>,
    stack: Option<Box<[MaybeUninit<u8>]>>,
}

extern "C" fn trampoline() {
    let inner = CURRENT.with(|c| c.get());

    // SAFETY: `inner` is the coroutine being resumed for the first time.
    unsafe {
        let f = (*inner).entry.take().expect("coroutine entry");

        if let Err(p) = std::panic::catch_unwind(std::panic::AssertUnwindSafe(f)) {
            (*inner).panic = Some(p);
        }

        (*inner).done = true;

        let main = MAIN_CTX.with(|m| (*m.get()).as_mut_ptr());

        libc::swapcontext((*inner).ctx.as_mut_ptr(), main);
    }

    unreachable!("finished coroutine resumed");
}

impl Coro {
    /// Create a coroutine running `f`. The closure may borrow data that outlives the `Coro`.
    pub fn new<'a>(f: Box<dyn FnOnce() + 'a>) -> Coro {
        // SAFETY: lifetime erasure; the caller keeps the borrowed data alive until the Coro is
        // dropped (enforced by `a2::execute`'s structure).
        let f: Box<dyn FnOnce() + 'static> = unsafe { std::mem::transmute(f) };

        let mut stack = STACK_POOL
            .with(|p| unsafe { (*p.get()).pop() })
            .unwrap_or_else(|| {
                let mut v: Vec<MaybeUninit<u8>> = Vec::with_capacity(STACK_SIZE);

                // SAFETY: MaybeUninit needs no initialisation
                unsafe { v.set_len(STACK_SIZE) };

                v.into_boxed_slice()
            });

        let mut inner = Box::new(CoroInner {
            ctx: MaybeUninit::zeroed(),
            entry: Some(f),
            done: false,
            panic: None,
        });

        unsafe {
            let ctx = inner.ctx.as_mut_ptr();

            assert_eq!(libc::getcontext(ctx), 0);

            (*ctx).uc_stack.ss_sp = stack.as_mut_ptr().cast();
            (*ctx).uc_stack.ss_size = stack.len();
            (*ctx).uc_link = std::ptr::null_mut();

            libc::makecontext(ctx, trampoline, 0);
        }

        Coro {
            inner,
            stack: Some(stack),
        }
    }

    pub fn is_done(&self) -> bool {
        self.inner.done
    }

    /// Run the coroutine until it yields or finishes.
    pub fn resume(&mut self) {
        assert!(!self.inner.done, "resume of a finished coroutine");

        let ptr: *mut CoroInner = &mut *self.inner;
        let prev = CURRENT.with(|c| c.replace(ptr));

        unsafe {
            let main = MAIN_CTX.with(|m| (*m.get()).as_mut_ptr());

            libc::swapcontext(main, (*ptr).ctx.as_ptr());
        }

        CURRENT.with(|c| c.set(prev));
    }

    /// Payload of a panic that ended the coroutine, if any.
    pub fn take_panic(&mut self) -> Option<Box<dyn std::any::Any + Send>> {
        self.inner.panic.take()
    }
}

impl Drop for Coro {
    fn drop(&mut self) {
        if let Some(stack) = self.stack.take() {
            STACK_POOL.with(|p| unsafe {
                let pool = &mut *p.get();

                if pool.len() < 16 {
                    pool.push(stack);
                }
            });
        }
    }
}

/// Whether the calling code runs inside a coroutine.
pub fn in_coroutine() -> bool {
    CURRENT.with(|c| !c.get().is_null())
}

/// Suspend the current coroutine and return to whoever resumed it.
pub fn yield_now() {
    let inner = CURRENT.with(|c| c.get());

    assert!(!inner.is_null(), "yield outside a coroutine");

    unsafe {
        let main = MAIN_CTX.with(|m| (*m.get()).as_mut_ptr());

        libc::swapcontext((*inner).ctx.as_mut_ptr(), main);
    }
}

#[cfg(test)]
mod tests {
    use super::*;

    #[test]
    fn ping_pong() {
        let log = std::cell::RefCell::new(Vec::new());

        {
            let mut a = Coro::new(Box::new(|| {
                for i in 0..3 {
                    log.borrow_mut().push(format!("a{i}"));
                    yield_now();
                }
            }));
            let mut b = Coro::new(Box::new(|| {
                for i in 0..2 {
                    log.borrow_mut().push(format!("b{i}"));
                    yield_now();
                }

                panic!("boom");
            }));

            while !a.is_done() || !b.is_done() {
                if !a.is_done() {
                    a.resume();
                }

                if !b.is_done() {
                    b.resume();
                }
            }

            assert!(b.take_panic().is_some());
        }

        assert_eq!(log.into_inner(), vec!["a0", "b0", "a1", "b1", "a2"]);
    }
}
