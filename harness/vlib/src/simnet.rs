//! Engine B — a simulated EtherCAT segment with ground truth.
//!
//! Written from ETG.1000.4/.6 and ESC datasheet semantics, sharing no code with ethercrab: own
//! frame walk, own register / SII / sync manager / FMMU / AL / mailbox / DC behaviour. The
//! generated `NetSpec` is the oracle for the end-to-end properties.

use crate::{
    sii::{self, Category, SiiDesc},
    wire,
};
use serde::{Deserialize, Serialize};

// ---------------------------------------------------------------------------------------------
// Register map (ESC)
// ---------------------------------------------------------------------------------------------

pub const R_TYPE: usize = 0x0000;
pub const R_FMMU_COUNT: usize = 0x0004;
pub const R_SM_COUNT: usize = 0x0005;
pub const R_SUPPORT: usize = 0x0008;
pub const R_STATION_ADDR: usize = 0x0010;
pub const R_STATION_ALIAS: usize = 0x0012;
pub const R_DL_CONTROL: usize = 0x0100;
pub const R_DL_STATUS: usize = 0x0110;
pub const R_AL_CONTROL: usize = 0x0120;
pub const R_AL_STATUS: usize = 0x0130;
pub const R_AL_STATUS_CODE: usize = 0x0134;
pub const R_SII_CONFIG: usize = 0x0500;
pub const R_SII_CONTROL: usize = 0x0502;
pub const R_SII_ADDRESS: usize = 0x0504;
pub const R_SII_DATA: usize = 0x0508;
pub const R_FMMU0: usize = 0x0600;
pub const R_SM0: usize = 0x0800;
pub const R_DC_PORT0: usize = 0x0900;
pub const R_DC_SYSTIME: usize = 0x0910;
pub const R_DC_RECV_TIME: usize = 0x0918;
pub const R_DC_OFFSET: usize = 0x0920;
pub const R_DC_DELAY: usize = 0x0928;
pub const R_DC_SYNC_ACTIVE: usize = 0x0981;
pub const R_DC_START_TIME: usize = 0x0990;
pub const R_DC_SYNC0_CYCLE: usize = 0x09a0;
pub const R_DC_SYNC1_CYCLE: usize = 0x09a4;
pub const PROCESS_RAM: usize = 0x1000;
pub const MEM: usize = 0x1_0000;

pub const AL_INIT: u8 = 1;
pub const AL_PREOP: u8 = 2;
pub const AL_BOOT: u8 = 3;
pub const AL_SAFEOP: u8 = 4;
pub const AL_OP: u8 = 8;

// ---------------------------------------------------------------------------------------------
// Ground truth: the network description
// ---------------------------------------------------------------------------------------------

#[derive(Serialize, Deserialize, Clone, Copy, Debug, PartialEq, Eq, Hash)]
pub enum DcKind {
    None,
    /// DC supported without enhanced sync ("reference only")
    RefOnly,
    Bits32,
    Bits64,
}

/// What the device does when a state is requested.
#[derive(Serialize, Deserialize, Clone, Debug, PartialEq, Eq, Hash)]
pub enum Esm {
    /// Reach the requested state after this many AL status reads
    Accept { after_polls: u8 },
    /// Stay in the old state, set the error bit and this AL status code
    Refuse { code: u16 },
    /// Never change
    Stall,
    /// Accept, then fall back to the previous state (with error) after this many status reads
    FallBack { after_polls: u8, later_polls: u8, code: u16 },
}

#[derive(Serialize, Deserialize, Clone, Debug, PartialEq, Eq, Hash, Default)]
pub enum ObjBehaviour {
    #[default]
    Normal,
    /// Every access is aborted with this code
    Abort(u32),
    /// The reply names a different object
    WrongIndex,
    /// The reply names the right object but the next sub-index
    WrongSubIndex,
    /// An emergency message is sent instead of the reply
    Emergency { code: u16, register: u8 },
}

#[derive(Serialize, Deserialize, Clone, Debug, PartialEq, Eq, Hash)]
pub struct Object {
    pub index: u16,
    /// Value bytes per sub-index (sub-index 0 first)
    pub subs: Vec<Vec<u8>>,
    #[serde(default)]
    pub behaviour: ObjBehaviour,
}

#[derive(Serialize, Deserialize, Clone, Debug, PartialEq, Eq, Hash)]
pub enum UploadPolicy {
    /// Expedited when <= 4 bytes, else normal, segmented when it does not fit the mailbox
    Auto,
    /// Always normal (even for <= 4 bytes) when it fits
    PreferNormal,
    /// Segmented with these segment sizes (cycled; clipped to 7..=mailbox-9 except the last)
    Segmented(Vec<u16>),
    /// Segmented as ETG.1000.6 5.6.2.4 describes it (and SOEM implements it): the initiate
    /// response already carries this many bytes (clipped to what fits), segments carry the rest
    SegmentedInitData(u16, Vec<u16>),
}

#[derive(Serialize, Deserialize, Clone, Debug, PartialEq, Eq, Hash)]
pub struct DeviceSpec {
    pub sii: SiiDesc,
    /// SII interface serves 8 bytes per read
    pub chunk8: bool,
    pub sii_busy_polls: u8,
    pub dc: DcKind,
    /// Open ports 0..3 (port 0 = upstream)
    pub ports: [bool; 4],
    /// Station address the device holds before initialisation
    pub stale_station_addr: u16,
    /// ESM behaviour per requested state: [INIT, PREOP, SAFEOP, OP]
    pub esm: [Esm; 4],
    /// Strict: only as many FMMUs / SMs exist as the SII declares, and state transitions check
    /// the sync manager configuration as slave stacks do
    pub strict: bool,
    /// (PDO index, factor) the device application is configured for
    #[serde(default)]
    pub oversampling: Vec<(u16, u16)>,
    pub od: Vec<Object>,
    pub upload: UploadPolicy,
    /// Seed for the content of the input process memory
    pub input_seed: u64,
    /// Local clock = global time + this offset (ns)
    pub clock_offset: u64,
    /// Delay (ns) of the link to the upstream neighbour
    pub link_delay: u32,
    /// Index of the upstream neighbour in the device list (None for the first device)
    pub parent: Option<usize>,
    /// Report these link bits (DL status bits 4..7 = ports 0..3) instead of the real wiring
    #[serde(default)]
    pub dl_links_override: Option<u8>,
    /// Report these port receive times instead of the real ones
    #[serde(default)]
    pub port_times_override: Option<[u32; 4]>,
}

#[derive(Serialize, Deserialize, Clone, Debug, PartialEq, Eq, Hash)]
pub struct NetSpec {
    pub devices: Vec<DeviceSpec>,
}

// ---------------------------------------------------------------------------------------------
// Device
// ---------------------------------------------------------------------------------------------

#[derive(Clone, Debug, Default)]
pub struct MailboxState {
    /// Master -> device mailbox is full (written, not yet consumed)
    pub in_full: bool,
    /// Device -> master mailbox holds a reply
    pub out_full: bool,
    /// Queue of replies waiting for the out mailbox to become free
    pub out_queue: std::collections::VecDeque<Vec<u8>>,
}

#[derive(Clone, Debug, Default)]
pub struct DeviceStats {
    pub al_control_writes: Vec<u8>,
    /// Global time (ns) of each AL control write
    pub al_control_at: Vec<u64>,
    pub al_status_reads: u32,
    /// First byte of the AL status register as served to each read that covered it
    pub al_served: Vec<u8>,
    pub sii_reads: u32,
    pub sii_writes: Vec<(u16, [u8; 2])>,
    /// Every SII write command, also the ones answered with a command error
    pub sii_write_cmds: Vec<(u16, [u8; 2])>,
    pub mailbox_requests: Vec<Vec<u8>>,
    pub downloads: Vec<(u16, u8, Vec<u8>)>,
    pub uploads: Vec<(u16, u8)>,
    /// How each served upload was answered: 0 expedited, 1 normal, 2 segmented (+ complete flag 0x10)
    pub upload_kinds: Vec<u8>,
    /// Content of the out mailbox for each reply placed in it (first 64)
    pub replies_served: Vec<Vec<u8>>,
    pub mailbox_counters: Vec<u8>,
    pub station_addr_writes: Vec<u16>,
    pub dc_sync_writes: u32,
}

#[derive(Clone)]
pub struct Device {
    pub spec: DeviceSpec,
    pub mem: Vec<u8>,
    pub eeprom: Vec<u8>,
    pub al_state: u8,
    pub al_error: bool,
    /// (target state, remaining status polls, then)
    pending_esm: Option<(u8, u8, Esm)>,
    fallback: Option<(u8, u8, u16)>,
    sii_busy_left: u8,
    pub mbx: MailboxState,
    pub stats: DeviceStats,
    /// Segmented upload in progress: (remaining data, toggle expected, segment sizes, next size idx)
    segmented: Option<(Vec<u8>, bool, usize)>,
    /// Scripted raw replies (C16): when non-empty every mailbox request is answered by the next
    pub scripted_replies: std::collections::VecDeque<Vec<u8>>,
    /// Scripted mode (C16): the CoE server is off. Request k is answered by burst k of replies
    /// (delivered one after the other as the MainDevice empties the out mailbox)
    pub scripted: Option<std::collections::VecDeque<Vec<Vec<u8>>>>,
    /// In scripted mode, once the script is used up: this reply is delivered again and again,
    /// after every request and every time the out mailbox has been emptied
    pub endless: Option<Vec<u8>>,
    /// Device is unplugged: it neither sees nor answers any datagram
    pub absent: bool,
    /// Each EEPROM word is refused (command error) this many times before a write to it is
    /// accepted
    pub sii_write_naks: u8,
    sii_nak_count: (u16, u8),
    sii_pending: Option<(usize, [u8; 8])>,
    /// The SII interface stays busy for ever after the next command
    pub sii_stuck: bool,
    /// The system time register answers this value (C18: chosen reference times)
    pub sys_time_force: Option<u64>,
    /// Every write that touched 0x0980..0x09b0 (address, data)
    pub dc_sync_log: Vec<(usize, Vec<u8>)>,
    endless_armed: bool,
    /// Forced AL status bytes: each read of the AL status register is served the next one instead
    /// of the register content (C10: every combination of reported states)
    pub al_force: std::collections::VecDeque<u8>,
    pub n_fmmu: usize,
    pub n_sm: usize,
}

fn rd16(m: &[u8], a: usize) -> u16 {
    u16::from_le_bytes([m[a], m[a + 1]])
}

fn wr16(m: &mut [u8], a: usize, v: u16) {
    m[a..a + 2].copy_from_slice(&v.to_le_bytes());
}

fn rd32(m: &[u8], a: usize) -> u32 {
    u32::from_le_bytes([m[a], m[a + 1], m[a + 2], m[a + 3]])
}

fn rd64(m: &[u8], a: usize) -> u64 {
    u64::from_le_bytes(m[a..a + 8].try_into().unwrap())
}

/// One sync manager as programmed into the registers.
#[derive(Clone, Copy, Debug, PartialEq, Eq)]
pub struct SmReg {
    pub start: u16,
    pub len: u16,
    pub control: u8,
    pub enabled: bool,
}

impl SmReg {
    pub fn mailbox(&self) -> bool {
        self.control & 3 == 2
    }

    /// true = written by the MainDevice
    pub fn master_writes(&self) -> bool {
        (self.control >> 2) & 3 == 1
    }

    pub fn contains(&self, a: usize) -> bool {
        self.enabled && self.len > 0 && a >= usize::from(self.start) && a < usize::from(self.start) + usize::from(self.len)
    }

    pub fn last(&self) -> usize {
        usize::from(self.start) + usize::from(self.len) - 1
    }
}

#[derive(Clone, Copy, Debug, PartialEq, Eq)]
pub struct FmmuReg {
    pub logical: u32,
    pub len: u16,
    pub physical: u16,
    pub read: bool,
    pub write: bool,
    pub enabled: bool,
}

impl Device {
    pub fn new(spec: &DeviceSpec) -> Self {
        let eeprom = spec.sii.encode();
        let mut mem = vec![0u8; MEM];

        mem[R_TYPE] = 0x11;
        mem[1] = 0x02;

        let (n_fmmu, n_sm) = if spec.strict {
            let f = match spec.sii.find(sii::CAT_FMMU) {
                Some(Category::Fmmu(f)) => f.len(),
                _ => 0,
            };
            let s = match spec.sii.find(sii::CAT_SYNCM) {
                Some(Category::SyncM(s)) => s.len(),
                _ => 0,
            };

            (f, s)
        } else {
            (16, 16)
        };

        mem[R_FMMU_COUNT] = n_fmmu as u8;
        mem[R_SM_COUNT] = n_sm as u8;
        mem[0x0006] = 60;
        mem[0x0007] = 0x0f;

        // Support flags: bit2 DC supported, bit3 64 bit DC, bit8 enhanced DC sync
        let support: u16 = match spec.dc {
            DcKind::None => 0,
            DcKind::RefOnly => 0x0004,
            DcKind::Bits32 => 0x0004 | 0x0100,
            DcKind::Bits64 => 0x0004 | 0x0008 | 0x0100,
        };

        wr16(&mut mem, R_SUPPORT, support);
        wr16(&mut mem, R_STATION_ADDR, spec.stale_station_addr);
        wr16(&mut mem, R_STATION_ALIAS, spec.sii.alias);

        // DL status: bit0 PDI operational, link bits 4..7, loop/communication bits 8..15
        let mut dl: u16 = 0x0001;

        for p in 0..4 {
            let open = match spec.dl_links_override {
                Some(bits) => bits & (1 << p) != 0,
                None => spec.ports[p],
            };

            if open {
                dl |= 1 << (4 + p);
                // communication established
                dl |= 1 << (9 + 2 * p);
            } else {
                // loop closed
                dl |= 1 << (8 + 2 * p);
            }
        }

        wr16(&mut mem, R_DL_STATUS, dl);

        mem[R_AL_STATUS] = AL_INIT;
        mem[R_AL_CONTROL] = AL_INIT;

        // SII status: read size / address algorithm bits
        let mut sii_ctl: u16 = 0x0080;

        if spec.chunk8 {
            sii_ctl |= 0x0040;
        }

        wr16(&mut mem, R_SII_CONTROL, sii_ctl);

        // Input process memory pattern is written when the input SMs are known (at SAFE-OP)

        Self {
            spec: spec.clone(),
            mem,
            eeprom,
            al_state: AL_INIT,
            al_error: false,
            pending_esm: None,
            fallback: None,
            sii_busy_left: 0,
            mbx: MailboxState::default(),
            stats: DeviceStats::default(),
            segmented: None,
            scripted_replies: Default::default(),
            absent: false,
            sii_write_naks: 0,
            sii_nak_count: (0xffff, 0),
            sii_pending: None,
            sii_stuck: false,
            sys_time_force: None,
            dc_sync_log: Vec::new(),
            endless_armed: false,
            scripted: None,
            endless: None,
            al_force: Default::default(),
            n_fmmu,
            n_sm,
        }
    }

    pub fn station_addr(&self) -> u16 {
        rd16(&self.mem, R_STATION_ADDR)
    }

    pub fn sm(&self, i: usize) -> SmReg {
        let a = R_SM0 + i * 8;

        SmReg {
            start: rd16(&self.mem, a),
            len: rd16(&self.mem, a + 2),
            control: self.mem[a + 4],
            enabled: self.mem[a + 6] & 1 == 1,
        }
    }

    pub fn fmmu(&self, i: usize) -> FmmuReg {
        let a = R_FMMU0 + i * 16;

        FmmuReg {
            logical: rd32(&self.mem, a),
            len: rd16(&self.mem, a + 4),
            physical: rd16(&self.mem, a + 8),
            read: self.mem[a + 11] & 1 == 1,
            write: self.mem[a + 11] & 2 == 2,
            enabled: self.mem[a + 12] & 1 == 1,
        }
    }

    fn sm_covering(&self, a: usize) -> Option<(usize, SmReg)> {
        (0..self.n_sm).map(|i| (i, self.sm(i))).find(|(_, s)| s.contains(a))
    }

    /// Whether register address `a` exists on this device (strict devices lack the FMMU / SM
    /// register sets beyond what they implement).
    fn exists(&self, a: usize) -> bool {
        if (R_FMMU0..R_FMMU0 + 0x100).contains(&a) {
            return (a - R_FMMU0) / 16 < self.n_fmmu;
        }

        if (R_SM0..R_SM0 + 0x80).contains(&a) {
            return (a - R_SM0) / 8 < self.n_sm;
        }

        if (R_DC_PORT0..0x0a00).contains(&a) {
            return self.spec.dc != DcKind::None;
        }

        true
    }

    // ---- physical read ------------------------------------------------------------------------

    /// Read `len` bytes at `addr`. Returns None when the access is not serviced.
    fn read(&mut self, addr: usize, len: usize, now: u64) -> Option<Vec<u8>> {
        if len == 0 {
            return Some(vec![]);
        }

        if addr + len > MEM || !self.exists(addr) {
            return None;
        }

        // Mailbox sync manager rules
        if let Some((_i, sm)) = self.sm_covering(addr) {
            if sm.mailbox() {
                if sm.master_writes() {
                    // reading the write mailbox: not serviced
                    return None;
                }

                // Read mailbox: must start at the SM start and be full
                if addr != usize::from(sm.start) || !self.mbx.out_full {
                    return None;
                }

                let out = self.mem[addr..addr + len].to_vec();

                if addr + len > sm.last() {
                    // last byte read: mailbox becomes empty, next queued reply moves in
                    self.mbx.out_full = false;
                    self.load_next_reply();
                }

                return Some(out);
            }
        }

        // Dynamic registers
        let al_read = addr <= R_AL_STATUS && R_AL_STATUS < addr + len;

        if al_read {
            self.on_al_status_read();
        }

        if addr <= R_SII_CONTROL + 1 && R_SII_CONTROL < addr + len {
            self.on_sii_status_read();
        }

        if self.spec.dc != DcKind::None && addr < R_DC_SYSTIME + 8 && R_DC_SYSTIME < addr + len {
            let t = self.sys_time_force.unwrap_or_else(|| self.local_time(now));

            self.mem[R_DC_SYSTIME..R_DC_SYSTIME + 8].copy_from_slice(&t.to_le_bytes());
        }

        // SM status registers (offset 5): mailbox full bit 3
        for i in 0..self.n_sm {
            let sm = self.sm(i);
            let st = R_SM0 + i * 8 + 5;

            if sm.enabled && sm.mailbox() {
                let full = if sm.master_writes() { self.mbx.in_full } else { self.mbx.out_full };

                self.mem[st] = if full { 0x08 } else { 0x00 };
            }
        }

        let mut out = self.mem[addr..addr + len].to_vec();

        if al_read {
            if let Some(v) = self.al_force.pop_front() {
                out[R_AL_STATUS - addr] = v;
            }

            self.stats.al_served.push(out[R_AL_STATUS - addr]);
        }

        Some(out)
    }

    pub fn local_time(&self, now: u64) -> u64 {
        now.wrapping_add(self.spec.clock_offset)
    }

    /// System time as the device computes it: local time + programmed offset (0x0920).
    pub fn system_time(&self, now: u64) -> u64 {
        self.local_time(now).wrapping_add(rd64(&self.mem, R_DC_OFFSET))
    }

    // ---- physical write -----------------------------------------------------------------------

    fn write(&mut self, addr: usize, data: &[u8], now: u64) -> bool {
        let len = data.len();

        if len == 0 {
            return true;
        }

        // attempts count too (a device without DC does not have these registers)
        if addr < 0x09b0 && 0x0980 < addr + len {
            self.dc_sync_log.push((addr, data.to_vec()));
        }

        if addr + len > MEM || !self.exists(addr) {
            return false;
        }

        if let Some((_i, sm)) = self.sm_covering(addr) {
            if sm.mailbox() {
                if !sm.master_writes() {
                    return false;
                }

                if addr != usize::from(sm.start) || self.mbx.in_full {
                    return false;
                }

                self.mem[addr..addr + len].copy_from_slice(data);

                if addr + len > sm.last() {
                    // last byte written: mailbox full, the application consumes it at once
                    let req = self.mem[usize::from(sm.start)..usize::from(sm.start) + usize::from(sm.len)].to_vec();

                    self.mbx.in_full = true;
                    self.on_mailbox_request(&req);
                    self.mbx.in_full = false;
                }

                return true;
            }
        }

        // Registers with side effects: apply byte ranges
        let covers = |reg: usize, n: usize| addr < reg + n && reg < addr + len;

        // Read-only registers are not overwritten
        let ro = |a: usize| a < 0x0010 || (0x0110..0x0112).contains(&a) || (0x0130..0x0136).contains(&a);

        let old_sii_ctl = rd16(&self.mem, R_SII_CONTROL);

        for (i, b) in data.iter().enumerate() {
            let a = addr + i;

            if ro(a) {
                continue;
            }

            // SII control: status bits are read only (handled below)
            self.mem[a] = *b;
        }

        if covers(R_STATION_ADDR, 2) {
            self.stats.station_addr_writes.push(self.station_addr());
        }

        if covers(R_AL_CONTROL, 1) {
            self.stats.al_control_at.push(now);
            self.on_al_control(self.mem[R_AL_CONTROL]);
        }

        if covers(R_SII_CONTROL, 2) {
            self.on_sii_control(old_sii_ctl);
        }

        if covers(R_DC_PORT0, 4) && self.spec.dc != DcKind::None {
            // latch handled by the network (it knows the arrival times)
        }

        if covers(R_DC_SYNC_ACTIVE, 1) || covers(R_DC_START_TIME, 8) || covers(R_DC_SYNC0_CYCLE, 8) {
            self.stats.dc_sync_writes += 1;
        }

        let _ = now;

        true
    }

    // ---- AL state machine ---------------------------------------------------------------------

    fn on_al_control(&mut self, v: u8) {
        self.stats.al_control_writes.push(v);

        let req = v & 0x0f;
        let ack = v & 0x10 != 0;

        if ack {
            self.al_error = false;
            wr16(&mut self.mem, R_AL_STATUS_CODE, 0);
        }

        let idx = match req {
            AL_INIT => 0,
            AL_PREOP => 1,
            AL_SAFEOP => 2,
            AL_OP => 3,
            _ => {
                // unknown / bootstrap request: refuse with "unknown requested state"
                self.refuse(0x0012);

                return;
            }
        };

        if req == self.al_state && !self.al_error {
            self.publish_al();

            return;
        }

        // Checks a slave stack performs (strict devices only)
        if self.spec.strict {
            if let Some(code) = self.transition_check(req) {
                self.refuse(code);

                return;
            }
        }

        match self.spec.esm[idx].clone() {
            Esm::Accept { after_polls } => self.pending_esm = Some((req, after_polls, Esm::Accept { after_polls: 0 })),
            Esm::Refuse { code } => self.refuse(code),
            Esm::Stall => self.pending_esm = None,
            Esm::FallBack { after_polls, later_polls, code } => self.pending_esm = Some((req, after_polls, Esm::FallBack { after_polls: 0, later_polls, code })),
        }

        if let Some((_, 0, _)) = self.pending_esm {
            self.advance_esm();
        }
    }

    fn refuse(&mut self, code: u16) {
        self.al_error = true;
        self.pending_esm = None;
        wr16(&mut self.mem, R_AL_STATUS_CODE, code);
        self.publish_al();
    }

    fn publish_al(&mut self) {
        self.mem[R_AL_STATUS] = self.al_state | if self.al_error { 0x10 } else { 0 };
        self.mem[R_AL_STATUS + 1] = 0;
    }

    fn advance_esm(&mut self) {
        if let Some((target, 0, then)) = self.pending_esm.clone() {
            let prev = self.al_state;

            self.al_state = target;
            self.pending_esm = None;

            if target == AL_INIT {
                self.mbx = MailboxState::default();
                self.segmented = None;
            }

            if target == AL_SAFEOP || target == AL_OP {
                self.fill_inputs();
            }

            if let Esm::FallBack { later_polls, code, .. } = then {
                self.fallback = Some((prev, later_polls, code));
            }

            self.publish_al();
        }
    }

    fn on_al_status_read(&mut self) {
        self.stats.al_status_reads += 1;

        if let Some((t, n, then)) = self.pending_esm.clone() {
            if n > 0 {
                self.pending_esm = Some((t, n - 1, then));
            }

            if n <= 1 {
                if let Some((t, _, then)) = self.pending_esm.clone() {
                    self.pending_esm = Some((t, 0, then));
                    self.advance_esm();
                }
            }

            return;
        }

        if let Some((prev, n, code)) = self.fallback {
            if n == 0 {
                self.fallback = None;
                self.al_state = prev;
                self.al_error = true;
                wr16(&mut self.mem, R_AL_STATUS_CODE, code);
                self.publish_al();
            } else {
                self.fallback = Some((prev, n - 1, code));
            }
        }
    }

    /// Mailbox SM defaults from the SII (word 0x18..0x1b) and the sync manager category.
    pub fn expected_mailbox_sms(&self) -> Option<(SmReg, SmReg)> {
        let s = &self.spec.sii;

        if s.mbx_protocols == 0 || (s.mbx_recv_size == 0 && s.mbx_send_size == 0) {
            return None;
        }

        let sms = match s.find(sii::CAT_SYNCM) {
            Some(Category::SyncM(v)) => v.clone(),
            _ => return None,
        };

        let w = sms.iter().find(|m| m.effective_usage() == 1)?;
        let r = sms.iter().find(|m| m.effective_usage() == 2)?;

        Some((
            SmReg { start: w.start, len: s.mbx_recv_size, control: w.control_byte(), enabled: true },
            SmReg { start: r.start, len: s.mbx_send_size, control: r.control_byte(), enabled: true },
        ))
    }

    /// Process data sync managers the device expects: (sm index, start, byte length, master writes)
    pub fn expected_pd_sms(&self) -> Vec<(usize, u16, u16, bool)> {
        let s = &self.spec.sii;
        let sms = match s.find(sii::CAT_SYNCM) {
            Some(Category::SyncM(v)) => v.clone(),
            _ => return vec![],
        };

        let mut out = Vec::new();

        for (i, m) in sms.iter().enumerate() {
            let usage = m.effective_usage();

            if usage != 3 && usage != 4 {
                continue;
            }

            let cat = if usage == 3 { sii::CAT_RXPDO } else { sii::CAT_TXPDO };
            let bits: u32 = match s.find(cat) {
                Some(Category::RxPdo(p)) | Some(Category::TxPdo(p)) => p
                    .iter()
                    .filter(|p| usize::from(p.sm) == i)
                    .map(|p| p.bit_len() * self.spec.oversampling.iter().find(|(idx, _)| *idx == p.index).map(|(_, f)| u32::from(*f)).unwrap_or(1))
                    .sum(),
                _ => 0,
            };

            out.push((i, m.start, bits.div_ceil(8) as u16, usage == 3));
        }

        out
    }

    fn transition_check(&self, req: u8) -> Option<u16> {
        if req == AL_PREOP && self.al_state == AL_INIT {
            if let Some((w, r)) = self.expected_mailbox_sms() {
                let sms: Vec<SmReg> = (0..self.n_sm).map(|i| self.sm(i)).collect();
                let ok = |e: &SmReg| sms.iter().any(|s| s.enabled && s.start == e.start && s.len == e.len && s.control & 0x0f == e.control & 0x0f);

                if !ok(&w) || !ok(&r) {
                    return Some(0x0016);
                }
            }
        }

        if req == AL_SAFEOP && self.al_state == AL_PREOP {
            for (i, start, len, master_writes) in self.expected_pd_sms() {
                let s = self.sm(i);
                let good = if len == 0 { !s.enabled || s.len == 0 } else { s.enabled && s.start == start && s.len == len };

                if !good {
                    return Some(if master_writes { 0x001d } else { 0x001e });
                }
            }
        }

        // Skipping a state upwards is not allowed
        let rank = |s: u8| match s {
            AL_INIT => 0,
            AL_PREOP => 1,
            AL_SAFEOP => 2,
            AL_OP => 3,
            _ => 0,
        };

        if rank(req) > rank(self.al_state) + 1 {
            return Some(0x0011);
        }

        None
    }

    /// Put a recognisable pattern into the input process memory.
    pub fn fill_inputs(&mut self) {
        for (_i, start, len, master_writes) in self.expected_pd_sms() {
            if !master_writes {
                let bytes = crate::util::bytes_from_seed(self.spec.input_seed ^ u64::from(start), usize::from(len));
                let a = usize::from(start);

                if a + bytes.len() <= MEM {
                    self.mem[a..a + bytes.len()].copy_from_slice(&bytes);
                }
            }
        }
    }

    // ---- SII ----------------------------------------------------------------------------------

    fn on_sii_control(&mut self, old: u16) {
        let new = rd16(&self.mem, R_SII_CONTROL);
        // Status / capability bits are not writable: keep size/algorithm from old
        let keep = old & 0x00c0;
        let mut ctl = (new & !0x00c0) | keep;

        // writing 0 to error bits clears them; busy is read only
        ctl &= !0x8000;

        let addr = rd32(&self.mem, R_SII_ADDRESS) as usize & 0xffff;

        if new & 0x0100 != 0 {
            // read
            self.stats.sii_reads += 1;

            let n = if self.spec.chunk8 { 8 } else { 4 };
            let mut data = [0u8; 8];

            for i in 0..n {
                data[i] = *self.eeprom.get(addr * 2 + i).unwrap_or(&0xff);
            }

            ctl &= !0x0100;
            self.sii_busy_left = self.spec.sii_busy_polls;

            if self.sii_busy_left == 0 && !self.sii_stuck {
                self.mem[R_SII_DATA..R_SII_DATA + n].copy_from_slice(&data[..n]);
            } else {
                // the data register is only valid once the interface is no longer busy
                self.mem[R_SII_DATA..R_SII_DATA + n].fill(0xee);
                self.sii_pending = Some((n, data));
            }
        } else if new & 0x0200 != 0 {
            // write (needs write enable bit 0)
            if new & 0x0001 != 0 {
                let d = [self.mem[R_SII_DATA], self.mem[R_SII_DATA + 1]];

                self.stats.sii_write_cmds.push((addr as u16, d));

                if self.sii_nak_count.0 != addr as u16 {
                    self.sii_nak_count = (addr as u16, 0);
                }

                if self.sii_nak_count.1 < self.sii_write_naks {
                    // command error: the word is not stored
                    self.sii_nak_count.1 += 1;
                    ctl |= 0x2000;
                } else {
                    self.sii_nak_count = (0xffff, 0);
                    ctl &= !0x2000;
                    self.stats.sii_writes.push((addr as u16, d));

                    if addr * 2 + 2 <= self.eeprom.len() {
                        self.eeprom[addr * 2..addr * 2 + 2].copy_from_slice(&d);
                    }
                }

                self.sii_busy_left = self.spec.sii_busy_polls;
            } else {
                ctl |= 0x4000;
            }

            ctl &= !0x0201;
        }

        if self.sii_busy_left > 0 {
            ctl |= 0x8000;
        }

        wr16(&mut self.mem, R_SII_CONTROL, ctl);
    }

    fn on_sii_status_read(&mut self) {
        let mut ctl = rd16(&self.mem, R_SII_CONTROL);

        if self.sii_stuck {
            ctl |= 0x8000;
        } else if self.sii_busy_left > 0 {
            self.sii_busy_left -= 1;
            ctl |= 0x8000;
        } else {
            if let Some((n, data)) = self.sii_pending.take() {
                self.mem[R_SII_DATA..R_SII_DATA + n].copy_from_slice(&data[..n]);
            }

            ctl &= !0x8000;
        }

        wr16(&mut self.mem, R_SII_CONTROL, ctl);
    }

    // ---- mailbox / CoE (filled in by simcoe) ---------------------------------------------------

    fn load_next_reply(&mut self) {
        if self.mbx.out_full {
            return;
        }

        if self.mbx.out_queue.is_empty() && self.endless_armed {
            if let Some(e) = self.endless.clone() {
                self.mbx.out_queue.push_back(e);
            }
        }

        if let Some(reply) = self.mbx.out_queue.pop_front() {
            // find the read mailbox SM
            if let Some(sm) = (0..self.n_sm).map(|i| self.sm(i)).find(|s| s.enabled && s.mailbox() && !s.master_writes()) {
                let a = usize::from(sm.start);
                let n = usize::from(sm.len);

                for i in 0..n {
                    self.mem[a + i] = *reply.get(i).unwrap_or(&0);
                }

                if self.stats.replies_served.len() < 64 {
                    self.stats.replies_served.push(self.mem[a..a + n].to_vec());
                }

                self.mbx.out_full = true;
            }
        }
    }

    pub fn queue_reply(&mut self, reply: Vec<u8>) {
        self.mbx.out_queue.push_back(reply);
        self.load_next_reply();
    }

    fn on_mailbox_request(&mut self, req: &[u8]) {
        self.stats.mailbox_requests.push(req.to_vec());

        if req.len() >= 6 {
            self.stats.mailbox_counters.push((req[5] >> 4) & 7);
        }

        if let Some(reply) = self.scripted_replies.pop_front() {
            self.queue_reply(reply);

            return;
        }

        if let Some(script) = self.scripted.as_mut() {
            if let Some(burst) = script.pop_front() {
                for r in burst {
                    self.mbx.out_queue.push_back(r);
                }
            }

            self.endless_armed = script.is_empty() && self.endless.is_some();

            self.load_next_reply();

            return;
        }

        if let Some(reply) = crate::simcoe::serve(self, req) {
            self.queue_reply(reply);
        }

        self.load_next_reply();
    }

    pub fn read_mailbox_len(&self) -> usize {
        (0..self.n_sm)
            .map(|i| self.sm(i))
            .find(|s| s.enabled && s.mailbox() && !s.master_writes())
            .map(|s| usize::from(s.len))
            .unwrap_or(0)
    }

    pub fn segmented_state(&mut self) -> &mut Option<(Vec<u8>, bool, usize)> {
        &mut self.segmented
    }
}

// ---------------------------------------------------------------------------------------------
// Network
// ---------------------------------------------------------------------------------------------

#[derive(Clone, Debug, Default)]
pub struct NetStats {
    pub frames: u64,
    pub datagrams: u64,
    /// Every frame the MainDevice transmitted (bounded)
    pub tx_log: Vec<Vec<u8>>,
    /// The answer to each logged frame (same index)
    pub rx_log: Vec<Vec<u8>>,
    /// Executor statistics: most frames in flight at once, and responses delivered while a frame
    /// sent earlier was still on its way
    pub max_in_flight: usize,
    pub overtakes: u64,
    /// Global time of the last DC receive time latch (BWR 0x0900)
    pub dc_latch_at: Option<u64>,
    /// Station addresses FRMW datagrams were sent to (distinct, in order of first use)
    pub frmw_targets: Vec<u16>,
    pub malformed: Option<String>,
}

#[derive(Clone)]
pub struct Network {
    pub devices: Vec<Device>,
    pub stats: NetStats,
    pub log_frames: bool,
    /// Wire-level fault: add this to the working counter of datagram number `n` (counting all)
    pub wkc_fault: Option<(u64, i32)>,
    /// Frames are returned unprocessed (no device connected)
    pub echo_only: bool,
    pub max_frame: usize,
    /// Device `.0` drops off the network when the datagram counter reaches `.1`
    pub drop_at: Option<(usize, u64)>,
}

impl Network {
    pub fn new(spec: &NetSpec) -> Self {
        Self {
            devices: spec.devices.iter().map(Device::new).collect(),
            stats: NetStats::default(),
            log_frames: false,
            wkc_fault: None,
            echo_only: false,
            max_frame: 1514,
            drop_at: None,
        }
    }

    /// Frame processing order: depth-first along the tree (port order 0 -> 3 -> 1 -> 2 is the
    /// order in which a frame leaves a device's ports; devices are listed in that order already).
    fn order(&self) -> Vec<usize> {
        (0..self.devices.len()).collect()
    }

    /// Arrival time (global ns) of a frame at each device's ports, for a frame entering the first
    /// device at `t0`: returns per device [port0, port1, port2, port3] arrival times (None =
    /// closed port). Model: a frame enters at the upstream port, is forwarded at once to the next
    /// open port; each link adds its (symmetric) delay in each direction.
    pub fn port_arrivals(&self, t0: u64) -> Vec<[Option<u64>; 4]> {
        let n = self.devices.len();
        let mut out = vec![[None; 4]; n];

        if n == 0 {
            return out;
        }

        // children per device in port order 3,1,2 (after entry port 0)
        let mut children: Vec<Vec<usize>> = vec![vec![]; n];

        for (i, d) in self.devices.iter().enumerate() {
            if let Some(p) = d.spec.parent {
                children[p].push(i);
            }
        }

        // Recursive walk returning the time the frame comes back to the device's entry port
        fn walk(net: &Network, i: usize, t_in: u64, children: &Vec<Vec<usize>>, out: &mut Vec<[Option<u64>; 4]>) -> u64 {
            out[i][0] = Some(t_in);

            let mut t = t_in;
            let down_ports: Vec<usize> = [3usize, 1, 2].into_iter().filter(|p| net.devices[i].spec.ports[*p]).collect();

            for (k, port) in down_ports.iter().enumerate() {
                match children[i].get(k) {
                    Some(c) => {
                        let d = u64::from(net.devices[*c].spec.link_delay);
                        let back = walk(net, *c, t + d, children, out);

                        t = back + d;
                    }
                    None => {
                        // open port with a non-EtherCAT partner / nothing: no traffic returns
                    }
                }

                out[i][*port] = Some(t);
            }

            t
        }

        walk(self, 0, t0, &children, &mut out);

        out
    }

    /// Process one Ethernet frame as the segment would; returns the frame that comes back.
    pub fn process(&mut self, frame: &[u8], now: u64) -> Option<Vec<u8>> {
        self.stats.frames += 1;

        let logged = self.log_frames && self.stats.tx_log.len() < 4096;

        if logged {
            self.stats.tx_log.push(frame.to_vec());
            self.stats.rx_log.push(Vec::new());
        }

        // Universal wire monitor (C04): every frame any check hands to the simulator
        let decoded = match wire::check_tx_wellformed(frame, self.max_frame) {
            Ok(d) => d,
            Err(e) => {
                if self.stats.malformed.is_none() {
                    self.stats.malformed = Some(format!("{e}: {}", crate::util::hex(frame)));
                }

                return None;
            }
        };

        let mut out = frame.to_vec();

        if self.echo_only || self.devices.is_empty() {
            // Nothing processes the frame; it still comes back (e.g. through a switch) with the
            // source address untouched... a real empty segment returns it with the U/L bit set
            // by nobody, so the MainDevice ignores it. Model: comes back marked, unprocessed.
            out[6] |= 0x02;

            return Some(out);
        }

        out[6] |= 0x02;

        let order = self.order();
        let arrivals = self.port_arrivals(now);

        for dg in &decoded.datagrams {
            self.stats.datagrams += 1;

            if let Some((di, at)) = self.drop_at {
                if self.stats.datagrams >= at {
                    if let Some(d) = self.devices.get_mut(di) {
                        d.absent = true;
                    }
                }
            }

            let dgn = self.stats.datagrams;
            let off = dg.data_off;
            let len = usize::from(dg.len);
            let mut adp = dg.adp();
            let ado = usize::from(dg.ado());
            let mut wkc: u16 = 0;
            let mut data = dg.data.clone();

            for &di in &order {
                if self.devices[di].absent {
                    continue;
                }

                let dev = &mut self.devices[di];

                match dg.code {
                    wire::NOP => {}
                    wire::APRD | wire::APWR | wire::APRW | wire::ARMW => {
                        let hit = adp == 0;

                        match dg.code {
                            wire::APRD if hit => {
                                if let Some(r) = dev.read(ado, len, now) {
                                    data = r;
                                    wkc = wkc.wrapping_add(1);
                                }
                            }
                            wire::APWR if hit => {
                                if dev.write(ado, &data, now) {
                                    wkc = wkc.wrapping_add(1);
                                }
                            }
                            wire::APRW if hit => {
                                let r = dev.read(ado, len, now);
                                let w = dev.write(ado, &data, now);

                                if let Some(r) = r {
                                    data = r;
                                    wkc = wkc.wrapping_add(1);
                                }

                                if w {
                                    wkc = wkc.wrapping_add(2);
                                }
                            }
                            wire::ARMW => {
                                if hit {
                                    if let Some(r) = dev.read(ado, len, now) {
                                        data = r;
                                        wkc = wkc.wrapping_add(1);
                                    }
                                } else if dev.write(ado, &data, now) {
                                    wkc = wkc.wrapping_add(1);
                                }
                            }
                            _ => {}
                        }

                        adp = adp.wrapping_add(1);
                    }
                    wire::FPRD | wire::FPWR | wire::FPRW | wire::FRMW => {
                        if dg.code == wire::FRMW && !self.stats.frmw_targets.contains(&adp) {
                            self.stats.frmw_targets.push(adp);
                        }

                        let alias_on = dev.mem[R_DL_CONTROL + 3] & 1 == 1;
                        let hit = adp == dev.station_addr() || (alias_on && adp == rd16(&dev.mem, R_STATION_ALIAS));

                        match dg.code {
                            wire::FPRD if hit => {
                                if let Some(r) = dev.read(ado, len, now) {
                                    data = r;
                                    wkc = wkc.wrapping_add(1);
                                }
                            }
                            wire::FPWR if hit => {
                                if dev.write(ado, &data, now) {
                                    wkc = wkc.wrapping_add(1);
                                }
                            }
                            wire::FPRW if hit => {
                                let r = dev.read(ado, len, now);
                                let w = dev.write(ado, &data, now);

                                if let Some(r) = r {
                                    data = r;
                                    wkc = wkc.wrapping_add(1);
                                }

                                if w {
                                    wkc = wkc.wrapping_add(2);
                                }
                            }
                            wire::FRMW => {
                                if hit {
                                    if let Some(r) = dev.read(ado, len, now) {
                                        data = r;
                                        wkc = wkc.wrapping_add(1);
                                    }
                                } else if dev.exists(ado) && dev.write(ado, &data, now) {
                                    wkc = wkc.wrapping_add(1);
                                }
                            }
                            _ => {}
                        }
                    }
                    wire::BRD => {
                        if let Some(r) = dev.read(ado, len, now) {
                            for (d, x) in data.iter_mut().zip(r.iter()) {
                                *d |= *x;
                            }

                            wkc = wkc.wrapping_add(1);
                        }

                        adp = adp.wrapping_add(1);
                    }
                    wire::BWR | wire::BRW => {
                        // DC receive time latch
                        if ado == R_DC_PORT0 && dev.spec.dc != DcKind::None {
                            for p in 0..4 {
                                let t = arrivals[di][p].map(|t| dev.local_time(t) as u32).unwrap_or(0);

                                let t = dev.spec.port_times_override.map(|o| o[p]).unwrap_or(t);

                                dev.mem[R_DC_PORT0 + 4 * p..R_DC_PORT0 + 4 * p + 4].copy_from_slice(&t.to_le_bytes());
                            }

                            self.stats.dc_latch_at = Some(now);

                            let t0 = arrivals[di][0].map(|t| dev.local_time(t)).unwrap_or(0);

                            dev.mem[R_DC_RECV_TIME..R_DC_RECV_TIME + 8].copy_from_slice(&t0.to_le_bytes());
                            wkc = wkc.wrapping_add(1);
                        } else if dev.write(ado, &data, now) {
                            wkc = wkc.wrapping_add(1);
                        }

                        adp = adp.wrapping_add(1);
                    }
                    wire::LRD | wire::LWR | wire::LRW => {
                        let la = dg.logical();
                        let mut did_read = false;
                        let mut did_write = false;

                        for fi in 0..dev.n_fmmu {
                            let f = dev.fmmu(fi);

                            if !f.enabled || f.len == 0 {
                                continue;
                            }

                            // intersect [la, la+len) with [f.logical, f.logical+f.len)
                            let s = u64::from(la).max(u64::from(f.logical));
                            let e = (u64::from(la) + len as u64).min(u64::from(f.logical) + u64::from(f.len));

                            if s >= e {
                                continue;
                            }

                            for l in s..e {
                                let pa = usize::from(f.physical) + (l - u64::from(f.logical)) as usize;
                                let di_ = (l - u64::from(la)) as usize;

                                if pa >= MEM {
                                    continue;
                                }

                                if f.read && dg.code != wire::LWR {
                                    data[di_] = dev.mem[pa];
                                    did_read = true;
                                }

                                if f.write && dg.code != wire::LRD {
                                    dev.mem[pa] = dg.data[di_];
                                    did_write = true;
                                }
                            }
                        }

                        match dg.code {
                            wire::LRD if did_read => wkc = wkc.wrapping_add(1),
                            wire::LWR if did_write => wkc = wkc.wrapping_add(1),
                            wire::LRW => {
                                if did_read {
                                    wkc = wkc.wrapping_add(1);
                                }

                                if did_write {
                                    wkc = wkc.wrapping_add(2);
                                }
                            }
                            _ => {}
                        }
                    }
                    _ => {}
                }
            }

            if let Some((n, delta)) = self.wkc_fault {
                if n == dgn {
                    wkc = (i32::from(wkc) + delta) as u16;
                }
            }

            out[off..off + len].copy_from_slice(&data);
            out[off + len..off + len + 2].copy_from_slice(&wkc.to_le_bytes());
            out[off - 8..off - 6].copy_from_slice(&adp.to_le_bytes());
        }

        if logged {
            *self.stats.rx_log.last_mut().unwrap() = out.clone();
        }

        Some(out)
    }
}
