//! Engine C — generated derive programs for `ethercrab-wire`.
//!
//! `gen_batch` draws type definitions from a grammar covering what the derive macros accept,
//! `emit_crate` writes a Rust crate that derives the wire traits for them and exposes a tiny
//! request/response executor over stdin/stdout, and `ref_pack` / `ref_unpack` are an independent
//! bit-level reference driven by the layout table.

use serde::{Deserialize, Serialize};
use std::fmt::Write as _;

#[derive(Serialize, Deserialize, Clone, Copy, Debug, PartialEq, Eq, Hash)]
pub enum Prim {
    U8,
    U16,
    U32,
    U64,
    I8,
    I16,
    I32,
    I64,
    Bool,
    F32,
    F64,
}

impl Prim {
    pub fn rust(self) -> &'static str {
        match self {
            Prim::U8 => "u8",
            Prim::U16 => "u16",
            Prim::U32 => "u32",
            Prim::U64 => "u64",
            Prim::I8 => "i8",
            Prim::I16 => "i16",
            Prim::I32 => "i32",
            Prim::I64 => "i64",
            Prim::Bool => "bool",
            Prim::F32 => "f32",
            Prim::F64 => "f64",
        }
    }

    pub fn bytes(self) -> usize {
        match self {
            Prim::U8 | Prim::I8 | Prim::Bool => 1,
            Prim::U16 | Prim::I16 => 2,
            Prim::U32 | Prim::I32 | Prim::F32 => 4,
            Prim::U64 | Prim::I64 | Prim::F64 => 8,
        }
    }

    pub fn signed(self) -> bool {
        matches!(self, Prim::I8 | Prim::I16 | Prim::I32 | Prim::I64)
    }
}

#[derive(Serialize, Deserialize, Clone, Debug, PartialEq, Eq, Hash)]
pub enum Ty {
    Prim(Prim),
    /// `[u8; n]`
    Bytes(usize),
    /// `[T; n]` of a primitive or named sized type (read-only derives)
    Arr(Box<Ty>, usize),
    /// Index into the batch's type list (always a lower index: no recursion)
    Named(usize),
}

#[derive(Serialize, Deserialize, Clone, Copy, Debug, PartialEq, Eq, Hash)]
pub enum Derive {
    Read,
    Write,
    ReadWrite,
}

impl Derive {
    pub fn reads(self) -> bool {
        !matches!(self, Derive::Write)
    }

    pub fn writes(self) -> bool {
        !matches!(self, Derive::Read)
    }

    pub fn name(self) -> &'static str {
        match self {
            Derive::Read => "EtherCrabWireRead",
            Derive::Write => "EtherCrabWireWrite",
            Derive::ReadWrite => "EtherCrabWireReadWrite",
        }
    }
}

#[derive(Serialize, Deserialize, Clone, Debug, PartialEq, Eq, Hash)]
pub struct FieldDef {
    pub ty: Ty,
    /// Declared width in bits
    pub bits: usize,
    pub pre_skip: usize,
    pub post_skip: usize,
    /// `#[wire(skip)]`: not on the wire, `Default::default()` when read
    pub skip: bool,
    /// Write the attributes with `bytes = ` / `*_skip_bytes = ` where the amounts allow it
    pub use_bytes: bool,
    /// Omit the width attribute and rely on the macro's default for integer primitives
    pub implicit_width: bool,
}

#[derive(Serialize, Deserialize, Clone, Debug, PartialEq, Eq, Hash)]
pub struct StructDef {
    pub fields: Vec<FieldDef>,
    pub total_bits: usize,
    pub derive: Derive,
    pub use_bytes: bool,
}

#[derive(Serialize, Deserialize, Clone, Debug, PartialEq, Eq, Hash)]
pub struct VariantDef {
    /// Explicit discriminant, or None for an implicit one
    pub disc: Option<i128>,
    pub alternatives: Vec<i128>,
    pub default: bool,
    pub catch_all: bool,
}

#[derive(Serialize, Deserialize, Clone, Debug, PartialEq, Eq, Hash)]
pub struct EnumDef {
    pub repr: Prim,
    pub variants: Vec<VariantDef>,
    pub derive: Derive,
}

#[derive(Serialize, Deserialize, Clone, Debug, PartialEq, Eq, Hash)]
pub enum TypeDef {
    Struct(StructDef),
    Enum(EnumDef),
}

impl TypeDef {
    pub fn derive(&self) -> Derive {
        match self {
            TypeDef::Struct(s) => s.derive,
            TypeDef::Enum(e) => e.derive,
        }
    }
}

#[derive(Serialize, Deserialize, Clone, Debug, PartialEq, Eq, Hash)]
pub struct Batch {
    pub types: Vec<TypeDef>,
}

// ---------------------------------------------------------------------------------------------
// Layout helpers
// ---------------------------------------------------------------------------------------------

impl Batch {
    /// Width in bits a type occupies when used as a field.
    pub fn type_bits(&self, i: usize) -> usize {
        match &self.types[i] {
            TypeDef::Struct(s) => s.total_bits,
            TypeDef::Enum(e) => e.repr.bytes() * 8,
        }
    }

    pub fn packed_len(&self, i: usize) -> usize {
        self.type_bits(i).div_ceil(8)
    }

    pub fn ty_packed_len(&self, ty: &Ty) -> usize {
        match ty {
            Ty::Prim(p) => p.bytes(),
            Ty::Bytes(n) => *n,
            Ty::Arr(t, n) => self.ty_packed_len(t) * n,
            Ty::Named(i) => self.packed_len(*i),
        }
    }

    /// Rust's (and the declared layout's) discriminant of every variant.
    pub fn discriminants(e: &EnumDef) -> Vec<i128> {
        let mut out = Vec::new();
        let mut prev: Option<i128> = None;

        for v in &e.variants {
            let d = match v.disc {
                Some(d) => d,
                None => prev.map(|p| p + 1).unwrap_or(0),
            };

            out.push(d);
            prev = Some(d);
        }

        out
    }

    pub fn ty_reads(&self, ty: &Ty) -> bool {
        match ty {
            Ty::Named(i) => self.types[*i].derive().reads(),
            Ty::Arr(t, _) => self.ty_reads(t),
            _ => true,
        }
    }

    pub fn ty_writes(&self, ty: &Ty) -> bool {
        match ty {
            Ty::Named(i) => self.types[*i].derive().writes(),
            Ty::Arr(_, _) => false,
            _ => true,
        }
    }
}

// ---------------------------------------------------------------------------------------------
// Values
// ---------------------------------------------------------------------------------------------

#[derive(Serialize, Deserialize, Clone, Debug, PartialEq, Eq, Hash)]
pub enum Val {
    /// Integers, bools (0/1), float bit patterns
    Int(i128),
    Bytes(Vec<u8>),
    Arr(Vec<Val>),
    Struct(Vec<Val>),
    /// `(variant index, catch-all payload)`
    Enum(usize, i128),
}

pub fn flatten(v: &Val, out: &mut Vec<i128>) {
    match v {
        Val::Int(i) => out.push(*i),
        Val::Bytes(b) => out.extend(b.iter().map(|x| i128::from(*x))),
        Val::Arr(a) | Val::Struct(a) => {
            for x in a {
                flatten(x, out);
            }
        }
        Val::Enum(i, p) => {
            out.push(*i as i128);
            out.push(*p);
        }
    }
}

/// Rebuild a value of type `ty` from a flat token list (inverse of `flatten`).
pub fn unflatten(b: &Batch, ty: &Ty, toks: &mut impl Iterator<Item = i128>) -> Option<Val> {
    Some(match ty {
        Ty::Prim(_) => Val::Int(toks.next()?),
        Ty::Bytes(n) => Val::Bytes((0..*n).map(|_| toks.next().map(|x| x as u8)).collect::<Option<Vec<_>>>()?),
        Ty::Arr(t, n) => Val::Arr((0..*n).map(|_| unflatten(b, t, toks)).collect::<Option<Vec<_>>>()?),
        Ty::Named(i) => match &b.types[*i] {
            TypeDef::Struct(s) => Val::Struct(
                s.fields
                    .iter()
                    .filter(|f| !f.skip)
                    .map(|f| unflatten(b, &f.ty, toks))
                    .collect::<Option<Vec<_>>>()?,
            ),
            TypeDef::Enum(_) => {
                let i = toks.next()?;
                let p = toks.next()?;

                Val::Enum(i as usize, p)
            }
        },
    })
}

// ---------------------------------------------------------------------------------------------
// Reference packer / unpacker
// ---------------------------------------------------------------------------------------------

#[derive(Debug, Clone, PartialEq, Eq)]
pub enum RefErr {
    ReadBufferTooShort,
    InvalidValue,
    /// Invalid UTF-8 etc. never occur for the generated types
    Other,
}

fn prim_bytes(p: Prim, v: i128) -> Vec<u8> {
    match p {
        Prim::Bool => vec![if v != 0 { 0xff } else { 0 }],
        _ => (v as u128).to_le_bytes()[..p.bytes()].to_vec(),
    }
}

fn prim_from(p: Prim, b: &[u8]) -> i128 {
    let mut raw = [0u8; 16];

    raw[..p.bytes()].copy_from_slice(&b[..p.bytes()]);

    let u = u128::from_le_bytes(raw);

    match p {
        Prim::Bool => i128::from(b[0] > 0),
        Prim::I8 => i128::from(u as u8 as i8),
        Prim::I16 => i128::from(u as u16 as i16),
        Prim::I32 => i128::from(u as u32 as i32),
        Prim::I64 => i128::from(u as u64 as i64),
        _ => u as i128,
    }
}

/// Pack a value of `ty` stand-alone (as `EtherCrabWireWrite::pack` of that type would).
pub fn ref_pack_ty(b: &Batch, ty: &Ty, v: &Val) -> Vec<u8> {
    match (ty, v) {
        (Ty::Prim(p), Val::Int(i)) => prim_bytes(*p, *i),
        (Ty::Bytes(_), Val::Bytes(x)) => x.clone(),
        (Ty::Arr(t, _), Val::Arr(xs)) => xs.iter().flat_map(|x| ref_pack_ty(b, t, x)).collect(),
        (Ty::Named(i), v) => ref_pack(b, *i, v),
        _ => panic!("value/type mismatch: {ty:?} {v:?}"),
    }
}

pub fn ref_pack(b: &Batch, ti: usize, v: &Val) -> Vec<u8> {
    match (&b.types[ti], v) {
        (TypeDef::Enum(e), Val::Enum(vi, payload)) => {
            let d = if e.variants[*vi].catch_all { *payload } else { Batch::discriminants(e)[*vi] };

            (d as u128).to_le_bytes()[..e.repr.bytes()].to_vec()
        }
        (TypeDef::Struct(s), Val::Struct(vals)) => {
            let mut buf = vec![0u8; s.total_bits.div_ceil(8)];
            let mut pos = 0usize;
            let mut vi = 0;

            for f in &s.fields {
                if f.skip {
                    continue;
                }

                pos += f.pre_skip;

                let val = &vals[vi];

                vi += 1;

                if f.bits <= 8 {
                    // Sub-byte (or one byte merged) field: raw byte value masked to the width
                    let raw: u8 = match (&f.ty, val) {
                        (Ty::Prim(Prim::Bool), Val::Int(i)) => u8::from(*i != 0),
                        (Ty::Prim(_), Val::Int(i)) => *i as u8,
                        (t, v) => ref_pack_ty(b, t, v)[0],
                    };

                    let mask = ((1u16 << f.bits) - 1) as u8;

                    buf[pos / 8] |= (raw & mask) << (pos % 8);
                } else {
                    let bytes = ref_pack_ty(b, &f.ty, val);
                    let n = f.bits / 8;

                    buf[pos / 8..pos / 8 + bytes.len().min(n)].copy_from_slice(&bytes[..bytes.len().min(n)]);
                }

                pos += f.bits + f.post_skip;
            }

            buf
        }
        (t, v) => panic!("value/type mismatch: {t:?} {v:?}"),
    }
}

pub fn ref_unpack_ty(b: &Batch, ty: &Ty, buf: &[u8]) -> Result<Val, RefErr> {
    match ty {
        Ty::Prim(p) => {
            if buf.len() < p.bytes() {
                return Err(RefErr::ReadBufferTooShort);
            }

            Ok(Val::Int(prim_from(*p, buf)))
        }
        Ty::Bytes(n) => {
            if buf.len() < *n {
                return Err(RefErr::ReadBufferTooShort);
            }

            Ok(Val::Bytes(buf[..*n].to_vec()))
        }
        Ty::Arr(t, n) => {
            let l = b.ty_packed_len(t);

            if buf.len() < l * n {
                return Err(RefErr::ReadBufferTooShort);
            }

            (0..*n).map(|i| ref_unpack_ty(b, t, &buf[i * l..(i + 1) * l])).collect::<Result<Vec<_>, _>>().map(Val::Arr)
        }
        Ty::Named(i) => ref_unpack(b, *i, buf),
    }
}

pub fn ref_unpack(b: &Batch, ti: usize, buf: &[u8]) -> Result<Val, RefErr> {
    match &b.types[ti] {
        TypeDef::Enum(e) => {
            let n = e.repr.bytes();

            if buf.len() < n {
                return Err(RefErr::ReadBufferTooShort);
            }

            let raw = prim_from(e.repr, buf);
            let discs = Batch::discriminants(e);

            // Declared table: discriminants and alternatives map to their variant
            for (vi, v) in e.variants.iter().enumerate() {
                if v.catch_all {
                    continue;
                }

                if discs[vi] == raw || v.alternatives.contains(&raw) {
                    return Ok(Val::Enum(vi, 0));
                }
            }

            if let Some(ci) = e.variants.iter().position(|v| v.catch_all) {
                return Ok(Val::Enum(ci, raw));
            }

            if let Some(di) = e.variants.iter().position(|v| v.default) {
                return Ok(Val::Enum(di, 0));
            }

            Err(RefErr::InvalidValue)
        }
        TypeDef::Struct(s) => {
            let n = s.total_bits.div_ceil(8);

            if buf.len() < n {
                return Err(RefErr::ReadBufferTooShort);
            }

            let buf = &buf[..n];
            let mut pos = 0usize;
            let mut out = Vec::new();

            for f in &s.fields {
                if f.skip {
                    continue;
                }

                pos += f.pre_skip;

                if f.bits <= 8 {
                    let mask = ((1u16 << f.bits) - 1) as u8;
                    let raw = (buf[pos / 8] >> (pos % 8)) & mask;

                    let v = match &f.ty {
                        Ty::Prim(Prim::Bool) => Val::Int(i128::from(raw > 0)),
                        Ty::Prim(Prim::U8) => Val::Int(i128::from(raw)),
                        t => ref_unpack_ty(b, t, &[raw])?,
                    };

                    out.push(v);
                } else {
                    out.push(ref_unpack_ty(b, &f.ty, &buf[pos / 8..(pos + f.bits) / 8])?);
                }

                pos += f.bits + f.post_skip;
            }

            Ok(Val::Struct(out))
        }
    }
}

/// What `unpack(pack(v))` must give back: sub-byte integers truncated to their width.
pub fn normalise(b: &Batch, ti: usize, v: &Val) -> Val {
    match (&b.types[ti], v) {
        (TypeDef::Struct(s), Val::Struct(vals)) => {
            let mut out = Vec::new();
            let mut vi = 0;

            for f in &s.fields {
                if f.skip {
                    continue;
                }

                let val = &vals[vi];

                vi += 1;

                out.push(match (&f.ty, val) {
                    (Ty::Prim(Prim::U8), Val::Int(i)) if f.bits < 8 => Val::Int(*i & ((1 << f.bits) - 1)),
                    (Ty::Named(n), v) => normalise(b, *n, v),
                    (_, v) => v.clone(),
                });
            }

            Val::Struct(out)
        }
        (_, v) => v.clone(),
    }
}

// ---------------------------------------------------------------------------------------------
// Source emitter
// ---------------------------------------------------------------------------------------------

fn ty_rust(ty: &Ty) -> String {
    match ty {
        Ty::Prim(p) => p.rust().to_string(),
        Ty::Bytes(n) => format!("[u8; {n}]"),
        Ty::Arr(t, n) => format!("[{}; {n}]", ty_rust(t)),
        Ty::Named(i) => format!("T{i}"),
    }
}

fn build_expr(b: &Batch, ty: &Ty) -> String {
    match ty {
        Ty::Prim(Prim::Bool) => "(t.next().unwrap() != 0)".into(),
        Ty::Prim(Prim::F32) => "f32::from_bits(t.next().unwrap() as u32)".into(),
        Ty::Prim(Prim::F64) => "f64::from_bits(t.next().unwrap() as u64)".into(),
        Ty::Prim(p) => format!("(t.next().unwrap() as {})", p.rust()),
        Ty::Bytes(n) => format!("{{ let mut a = [0u8; {n}]; for x in a.iter_mut() {{ *x = t.next().unwrap() as u8; }} a }}"),
        Ty::Arr(inner, n) => format!("core::array::from_fn::<_, {n}, _>(|_| {})", build_expr(b, inner)),
        Ty::Named(i) => format!("build_t{i}(t)"),
    }
}

fn dump_stmt(b: &Batch, ty: &Ty, expr: &str) -> String {
    match ty {
        Ty::Prim(Prim::Bool) => format!("o.push({expr} as i128);"),
        Ty::Prim(Prim::F32) => format!("o.push({expr}.to_bits() as i128);"),
        Ty::Prim(Prim::F64) => format!("o.push({expr}.to_bits() as i128);"),
        Ty::Prim(_) => format!("o.push({expr} as i128);"),
        Ty::Bytes(_) => format!("for x in {expr}.iter() {{ o.push(*x as i128); }}"),
        Ty::Arr(inner, _) => format!("for x in {expr}.iter() {{ {} }}", dump_stmt(b, inner, "(*x)")),
        Ty::Named(i) => format!("dump_t{i}(&{expr}, o);"),
    }
}

pub fn emit_lib(b: &Batch) -> String {
    let mut s = String::new();

    s.push_str("// @generated by vlib::wiregen\n#![allow(dead_code, unused_variables, unused_mut, clippy::all)]\nuse ethercrab_wire::*;\n\n");

    for (i, t) in b.types.iter().enumerate() {
        match t {
            TypeDef::Struct(st) => {
                let attr = if st.use_bytes && st.total_bits % 8 == 0 {
                    format!("bytes = {}", st.total_bits / 8)
                } else {
                    format!("bits = {}", st.total_bits)
                };

                let _ = writeln!(s, "#[derive(Debug, Clone, PartialEq, ethercrab_wire::{})]\n#[wire({attr})]\npub struct T{i} {{", st.derive.name());

                for (fi, f) in st.fields.iter().enumerate() {
                    let mut parts: Vec<String> = Vec::new();

                    if f.skip {
                        parts.push("skip".into());
                    } else {
                        if f.pre_skip > 0 {
                            if f.use_bytes && f.pre_skip % 8 == 0 {
                                parts.push(format!("pre_skip_bytes = {}", f.pre_skip / 8));
                            } else {
                                parts.push(format!("pre_skip = {}", f.pre_skip));
                            }
                        }

                        if !f.implicit_width {
                            if f.use_bytes && f.bits % 8 == 0 {
                                parts.push(format!("bytes = {}", f.bits / 8));
                            } else {
                                parts.push(format!("bits = {}", f.bits));
                            }
                        }

                        if f.post_skip > 0 {
                            if f.use_bytes && f.post_skip % 8 == 0 {
                                parts.push(format!("post_skip_bytes = {}", f.post_skip / 8));
                            } else {
                                parts.push(format!("post_skip = {}", f.post_skip));
                            }
                        }
                    }

                    if !parts.is_empty() {
                        let _ = writeln!(s, "    #[wire({})]", parts.join(", "));
                    }

                    let _ = writeln!(s, "    pub f{fi}: {},", ty_rust(&f.ty));
                }

                s.push_str("}\n\n");

                // build / dump
                let _ = writeln!(s, "pub fn build_t{i}(t: &mut dyn Iterator<Item = i128>) -> T{i} {{\n    T{i} {{");

                for (fi, f) in st.fields.iter().enumerate() {
                    if f.skip {
                        let _ = writeln!(s, "        f{fi}: Default::default(),");
                    } else {
                        let _ = writeln!(s, "        f{fi}: {},", build_expr(b, &f.ty));
                    }
                }

                s.push_str("    }\n}\n\n");

                let _ = writeln!(s, "pub fn dump_t{i}(v: &T{i}, o: &mut Vec<i128>) {{");

                for (fi, f) in st.fields.iter().enumerate() {
                    if !f.skip {
                        let _ = writeln!(s, "    {}", dump_stmt(b, &f.ty, &format!("v.f{fi}")));
                    }
                }

                s.push_str("}\n\n");
            }
            TypeDef::Enum(e) => {
                let has_catch = e.variants.iter().any(|v| v.catch_all);
                let has_default = e.variants.iter().any(|v| v.default);
                let mut derives = vec!["Debug", "Clone", "PartialEq"];

                if !has_catch {
                    derives.push("Copy");
                }

                if has_default {
                    derives.push("Default");
                }

                let _ = writeln!(s, "#[derive({}, ethercrab_wire::{})]\n#[repr({})]\npub enum T{i} {{", derives.join(", "), e.derive.name(), e.repr.rust());

                for (vi, v) in e.variants.iter().enumerate() {
                    if v.default {
                        s.push_str("    #[default]\n");
                    }

                    if v.catch_all {
                        s.push_str("    #[wire(catch_all)]\n");

                        let _ = writeln!(s, "    V{vi}({}),", e.repr.rust());

                        continue;
                    }

                    if !v.alternatives.is_empty() {
                        let alts: Vec<String> = v.alternatives.iter().map(|a| a.to_string()).collect();
                        let _ = writeln!(s, "    #[wire(alternatives = [{}])]", alts.join(", "));
                    }

                    match v.disc {
                        Some(d) => {
                            let _ = writeln!(s, "    V{vi} = {d},");
                        }
                        None => {
                            let _ = writeln!(s, "    V{vi},");
                        }
                    }
                }

                s.push_str("}\n\n");

                let _ = writeln!(s, "pub fn build_t{i}(t: &mut dyn Iterator<Item = i128>) -> T{i} {{\n    let vi = t.next().unwrap();\n    let p = t.next().unwrap();\n    match vi {{");

                for (vi, v) in e.variants.iter().enumerate() {
                    if v.catch_all {
                        let _ = writeln!(s, "        {vi} => T{i}::V{vi}(p as {}),", e.repr.rust());
                    } else {
                        let _ = writeln!(s, "        {vi} => T{i}::V{vi},");
                    }
                }

                s.push_str("        _ => unreachable!(),\n    }\n}\n\n");

                let _ = writeln!(s, "pub fn dump_t{i}(v: &T{i}, o: &mut Vec<i128>) {{\n    match v {{");

                for (vi, v) in e.variants.iter().enumerate() {
                    if v.catch_all {
                        let _ = writeln!(s, "        T{i}::V{vi}(p) => {{ o.push({vi}); o.push(*p as i128); }}");
                    } else {
                        let _ = writeln!(s, "        T{i}::V{vi} => {{ o.push({vi}); o.push(0); }}");
                    }
                }

                s.push_str("    }\n}\n\n");
            }
        }
    }

    // Dispatcher
    s.push_str("pub fn err_code(e: WireError) -> u8 { match e { WireError::ReadBufferTooShort => 1, WireError::InvalidValue => 2, WireError::WriteBufferTooShort => 3, _ => 9 } }\n\n");
    s.push_str("/// op 0: unpack(input) -> Ok(tokens) / Err(code)\npub fn op_unpack(ti: u32, input: &[u8]) -> Result<Vec<i128>, u8> {\n    match ti {\n");

    for (i, t) in b.types.iter().enumerate() {
        if t.derive().reads() {
            let _ = writeln!(s, "        {i} => T{i}::unpack_from_slice(input).map(|v| {{ let mut o = Vec::new(); dump_t{i}(&v, &mut o); o }}).map_err(err_code),");
        }
    }

    s.push_str("        _ => Err(100),\n    }\n}\n\n");
    s.push_str("/// op 1: pack(value from tokens) -> (pack() bytes, pack_to_slice result on a destination of dest_len bytes pre-filled with 0xEE, PACKED_LEN, packed_len())\npub fn op_pack(ti: u32, toks: &[i128], dest_len: usize) -> Option<(Vec<u8>, Result<Vec<u8>, u8>, Vec<u8>, usize, usize)> {\n    let mut t = toks.iter().copied();\n    let t: &mut dyn Iterator<Item = i128> = &mut t;\n    match ti {\n");

    for (i, t) in b.types.iter().enumerate() {
        if t.derive().writes() {
            let _ = writeln!(
                s,
                "        {i} => {{ let v = build_t{i}(t); let p = v.pack().as_ref().to_vec(); let mut dest = vec![0xEEu8; dest_len]; let r = v.pack_to_slice(&mut dest).map(|s| s.to_vec()).map_err(err_code); Some((p, r, dest, <T{i} as EtherCrabWireSized>::PACKED_LEN, v.packed_len())) }}"
            );
        }
    }

    s.push_str("        _ => None,\n    }\n}\n");

    s
}

pub const MAIN_RS: &str = r#"// @generated by vlib::wiregen — request/response executor
use std::io::{Read, Write};

fn read_u32(r: &mut impl Read) -> Option<u32> {
    let mut b = [0u8; 4];
    r.read_exact(&mut b).ok()?;
    Some(u32::from_le_bytes(b))
}

fn main() {
    std::panic::set_hook(Box::new(|_| {}));
    let stdin = std::io::stdin();
    let mut r = stdin.lock();
    let stdout = std::io::stdout();
    let mut w = std::io::BufWriter::new(stdout.lock());

    loop {
        let Some(ti) = read_u32(&mut r) else { break };
        let op = read_u32(&mut r).unwrap();
        let aux = read_u32(&mut r).unwrap() as usize;
        let len = read_u32(&mut r).unwrap() as usize;
        let mut payload = vec![0u8; len];
        r.read_exact(&mut payload).unwrap();

        let mut out: Vec<u8> = Vec::new();

        let res = std::panic::catch_unwind(|| {
            let mut out: Vec<u8> = Vec::new();
            match op {
                0 => match wiregen_types::op_unpack(ti, &payload) {
                    Ok(toks) => {
                        out.push(0);
                        for t in toks { out.extend_from_slice(&t.to_le_bytes()); }
                    }
                    Err(code) => { out.push(1); out.push(code); }
                },
                _ => {
                    let toks: Vec<i128> = payload.chunks_exact(16).map(|c| i128::from_le_bytes(c.try_into().unwrap())).collect();
                    match wiregen_types::op_pack(ti, &toks, aux) {
                        Some((p, r, dest, packed_len_const, packed_len_fn)) => {
                            out.push(0);
                            out.extend_from_slice(&(p.len() as u32).to_le_bytes());
                            out.extend_from_slice(&p);
                            match r {
                                Ok(b) => { out.push(0); out.extend_from_slice(&(b.len() as u32).to_le_bytes()); out.extend_from_slice(&b); }
                                Err(c) => { out.push(1); out.push(c); }
                            }
                            out.extend_from_slice(&(dest.len() as u32).to_le_bytes());
                            out.extend_from_slice(&dest);
                            out.extend_from_slice(&(packed_len_const as u32).to_le_bytes());
                            out.extend_from_slice(&(packed_len_fn as u32).to_le_bytes());
                        }
                        None => { out.push(1); out.push(100); }
                    }
                }
            }
            out
        });

        match res {
            Ok(o) => out = o,
            Err(_) => { out.push(2); }
        }

        w.write_all(&(out.len() as u32).to_le_bytes()).unwrap();
        w.write_all(&out).unwrap();
        w.flush().unwrap();
    }
}
"#;

pub fn cargo_toml() -> String {
    r#"[package]
name = "wiregen-types"
version = "0.0.0"
edition = "2021"

[lib]
name = "wiregen_types"
path = "src/lib.rs"

[[bin]]
name = "wiregen-exec"
path = "src/main.rs"

[dependencies]
ethercrab-wire = { path = "/repo/ethercrab-wire" }

[profile.dev]
opt-level = 0
debug = false
overflow-checks = true

[workspace]
"#
    .to_string()
}

// ---------------------------------------------------------------------------------------------
// Generator (deterministic function of a seed)
// ---------------------------------------------------------------------------------------------

pub struct Rng(pub u64);

impl Rng {
    pub fn next(&mut self) -> u64 {
        self.0 = crate::core::mix(self.0, 0xa5);

        self.0
    }

    pub fn below(&mut self, n: usize) -> usize {
        if n == 0 { 0 } else { (self.next() % n as u64) as usize }
    }

    pub fn chance(&mut self, pct: u64) -> bool {
        self.next() % 100 < pct
    }

    pub fn pick<T: Clone>(&mut self, xs: &[T]) -> T {
        xs[self.below(xs.len())].clone()
    }
}

const PRIMS_MULTI: &[Prim] = &[Prim::U16, Prim::U32, Prim::U64, Prim::I16, Prim::I32, Prim::I64, Prim::F32, Prim::F64];
const PRIMS_ONE: &[Prim] = &[Prim::U8, Prim::I8, Prim::Bool];
const REPRS: &[Prim] = &[Prim::U8, Prim::U8, Prim::U8, Prim::U16, Prim::U32, Prim::U64, Prim::I8, Prim::I16, Prim::I32, Prim::I64];

fn repr_range(p: Prim) -> (i128, i128) {
    match p {
        Prim::U8 => (0, 255),
        Prim::U16 => (0, 65535),
        Prim::U32 => (0, u32::MAX as i128),
        Prim::U64 => (0, u64::MAX as i128),
        Prim::I8 => (-128, 127),
        Prim::I16 => (-32768, 32767),
        Prim::I32 => (i32::MIN as i128, i32::MAX as i128),
        Prim::I64 => (i64::MIN as i128, i64::MAX as i128),
        _ => (0, 0),
    }
}

fn gen_enum(r: &mut Rng, implicit_ok: bool) -> EnumDef {
    let repr = r.pick(REPRS);
    let (lo, hi) = repr_range(repr);
    let derive = r.pick(&[Derive::ReadWrite, Derive::ReadWrite, Derive::Read, Derive::Write]);
    let n = 1 + r.below(6);
    let has_catch = r.chance(30);
    let has_default = r.chance(30);
    let implicit = implicit_ok && !has_catch && r.chance(25);
    let mut used: Vec<i128> = Vec::new();
    let mut variants = Vec::new();

    let mut fresh = |r: &mut Rng, used: &mut Vec<i128>, small: bool| -> i128 {
        loop {
            let v = if small || r.chance(70) {
                // small magnitudes: 0..16 (and negatives for signed)
                let m = r.below(16) as i128;

                if lo < 0 && r.chance(30) { -m - 1 } else { m }
            } else {
                match r.below(3) {
                    0 => hi - r.below(4) as i128,
                    1 => lo + r.below(4) as i128,
                    _ => lo + (r.next() as i128).rem_euclid(hi - lo + 1),
                }
            };

            if v >= lo && v <= hi && !used.contains(&v) {
                used.push(v);

                return v;
            }
        }
    };

    if implicit {
        // Rust numbering: first implicit = 0, then previous + 1. Choose explicit anchors rarely.
        let mut prev: Option<i128> = None;

        for _ in 0..n {
            let explicit = r.chance(25);
            let d = if explicit {
                // keep ascending so implicit successors stay unique
                let base = prev.map(|p| p + 1).unwrap_or(0);

                Some(base + 1 + r.below(5) as i128)
            } else {
                None
            };

            let val = d.unwrap_or_else(|| prev.map(|p| p + 1).unwrap_or(0));

            if val > hi {
                break;
            }

            used.push(val);
            prev = Some(val);

            variants.push(VariantDef {
                disc: d,
                alternatives: Vec::new(),
                default: false,
                catch_all: false,
            });
        }
    } else {
        for _ in 0..n {
            let d = fresh(r, &mut used, false);
            let mut alternatives = Vec::new();

            // alternatives are non-negative literals
            if r.chance(25) {
                for _ in 0..1 + r.below(3) {
                    let a = loop {
                        let v = fresh(r, &mut used, true);

                        if v >= 0 {
                            break v;
                        }
                    };

                    alternatives.push(a);
                }
            }

            variants.push(VariantDef {
                disc: Some(d),
                alternatives,
                default: false,
                catch_all: false,
            });
        }
    }

    if variants.is_empty() {
        variants.push(VariantDef { disc: Some(0), alternatives: vec![], default: false, catch_all: false });
    }

    if has_default {
        let i = r.below(variants.len());

        variants[i].default = true;
    }

    if has_catch {
        // The catch-all variant gets the implicit discriminant "previous + 1", which must be free
        // and representable: re-draw the last regular variant's discriminant until it is.
        let discs = Batch::discriminants(&EnumDef { repr, variants: variants.clone(), derive });
        let last = *discs.last().unwrap();

        if last + 1 > hi || used.contains(&(last + 1)) {
            let li = variants.len() - 1;

            for cand in (lo.max(-40)..hi.min(300)).rev() {
                if !used.contains(&cand) && !used.contains(&(cand + 1)) && cand + 1 <= hi {
                    used.retain(|u| *u != last);
                    used.push(cand);
                    variants[li].disc = Some(cand);
                    break;
                }
            }
        }

        variants.push(VariantDef {
            disc: None,
            alternatives: Vec::new(),
            default: false,
            catch_all: true,
        });
    }

    EnumDef { repr, variants, derive }
}

fn gen_struct(r: &mut Rng, b: &Batch, small: bool) -> StructDef {
    let derive = r.pick(&[Derive::ReadWrite, Derive::ReadWrite, Derive::ReadWrite, Derive::Read, Derive::Write]);
    let usable = |ty: &Ty| (!derive.reads() || b.ty_reads(ty)) && (!derive.writes() || b.ty_writes(ty));

    // Candidate named types by shape
    let sub_byte_named: Vec<(usize, usize)> = (0..b.types.len())
        .filter_map(|i| match &b.types[i] {
            TypeDef::Struct(s) if s.total_bits <= 8 => Some((i, s.total_bits)),
            TypeDef::Enum(e) if e.repr == Prim::U8 => Some((i, 0)),
            _ => None,
        })
        .filter(|(i, _)| usable(&Ty::Named(*i)))
        .collect();
    let whole_named: Vec<usize> = (0..b.types.len())
        .filter(|i| b.type_bits(*i) % 8 == 0 && b.type_bits(*i) > 8)
        .filter(|i| usable(&Ty::Named(*i)))
        .collect();

    let nfields = if small { 1 + r.below(3) } else { 1 + r.below(12) };
    let mut fields: Vec<FieldDef> = Vec::new();
    let mut pos = 0usize;
    let limit = if small { 8 } else { 8 * 96 };

    for _ in 0..nfields {
        if pos >= limit {
            break;
        }

        if !small && r.chance(6) {
            fields.push(FieldDef {
                ty: Ty::Prim(r.pick(&[Prim::U8, Prim::U32, Prim::Bool, Prim::I16])),
                bits: 0,
                pre_skip: 0,
                post_skip: 0,
                skip: true,
                use_bytes: false,
                implicit_width: false,
            });

            continue;
        }

        let room = 8 - pos % 8;
        let want_sub = small || r.chance(40);
        let mut pre_skip = 0usize;
        let (ty, bits);

        if want_sub {
            // A field of 1..=7 bits inside the current byte (skip to the next byte if full)
            let mut avail = room;

            if small {
                avail = avail.min(limit - pos);
            }

            if avail == 0 {
                break;
            }

            if r.chance(15) && avail > 1 && !small {
                pre_skip = 1 + r.below(avail - 1);
                avail -= pre_skip;
            }

            let w = 1 + r.below(avail.min(7));

            let named: Vec<&(usize, usize)> = sub_byte_named
                .iter()
                .filter(|(i, bits)| match &b.types[*i] {
                    TypeDef::Enum(e) => enum_fits(e, w),
                    _ => *bits == w,
                })
                .collect();

            if !named.is_empty() && r.chance(35) {
                let (i, _) = *named[r.below(named.len())];

                ty = Ty::Named(i);
            } else {
                ty = Ty::Prim(r.pick(&[Prim::U8, Prim::U8, Prim::Bool]));
            }

            bits = w;
        } else {
            // Byte aligned field
            if pos % 8 != 0 {
                pre_skip = room;
            }

            if r.chance(12) {
                pre_skip += 8 * r.below(3);
            }

            match r.below(10) {
                0..=3 => {
                    let p = r.pick(PRIMS_MULTI);

                    ty = Ty::Prim(p);
                    bits = p.bytes() * 8;
                }
                4 => {
                    let p = r.pick(PRIMS_ONE);

                    ty = Ty::Prim(p);
                    bits = 8;
                }
                5 => {
                    let n = 1 + r.below(12);

                    ty = Ty::Bytes(n);
                    bits = n * 8;
                }
                6 if derive == Derive::Read => {
                    let n = 1 + r.below(4);
                    let inner = if !whole_named.is_empty() && r.chance(40) {
                        Ty::Named(r.pick(&whole_named))
                    } else {
                        Ty::Prim(r.pick(&[Prim::U16, Prim::U32, Prim::I16, Prim::U64]))
                    };

                    bits = b.ty_packed_len(&inner) * 8 * n;
                    ty = Ty::Arr(Box::new(inner), n);
                }
                _ => {
                    let one_byte: Vec<usize> = sub_byte_named.iter().filter(|(_, bits)| *bits == 0 || *bits == 8).map(|(i, _)| *i).collect();

                    if !whole_named.is_empty() && r.chance(70) {
                        let i = r.pick(&whole_named);

                        ty = Ty::Named(i);
                        bits = b.type_bits(i);
                    } else if !one_byte.is_empty() {
                        ty = Ty::Named(r.pick(&one_byte));
                        bits = 8;
                    } else {
                        let p = r.pick(PRIMS_MULTI);

                        ty = Ty::Prim(p);
                        bits = p.bytes() * 8;
                    }
                }
            }
        }

        let mut post_skip = 0;

        if !small && r.chance(15) {
            // never lets a following sub-byte field start misaligned in a way the grammar can't
            // express: any amount is legal for the macro
            post_skip = 1 + r.below(11);
        }

        let implicit_width = matches!(ty, Ty::Prim(Prim::U8 | Prim::U16 | Prim::U32 | Prim::U64 | Prim::I8 | Prim::I16 | Prim::I32 | Prim::I64))
            && bits >= 8
            && r.chance(15);

        fields.push(FieldDef {
            ty,
            bits,
            pre_skip,
            post_skip,
            skip: false,
            use_bytes: r.chance(50),
            implicit_width,
        });

        pos += pre_skip + bits + post_skip;
    }

    if fields.iter().all(|f| f.skip) {
        fields.push(FieldDef {
            ty: Ty::Prim(Prim::U8),
            bits: 8 - pos % 8,
            pre_skip: 0,
            post_skip: 0,
            skip: false,
            use_bytes: false,
            implicit_width: false,
        });

        pos += 8 - pos % 8;
    }

    StructDef {
        fields,
        total_bits: pos,
        derive,
        use_bytes: r.chance(50),
    }
}

pub fn gen_batch(seed: u64, n: usize) -> Batch {
    let mut r = Rng(seed | 1);
    let mut b = Batch { types: Vec::new() };

    for i in 0..n {
        let t = match i % 5 {
            0 if i % 3 == 0 => {
                // A small u8 enum (fits 2..3 bit fields), often with a catch-all: the usual shape of
                // EtherCAT flag enums
                let n = 1 + r.below(3);
                let mut variants: Vec<VariantDef> = (0..n)
                    .map(|k| VariantDef { disc: Some(k as i128), alternatives: vec![], default: false, catch_all: false })
                    .collect();

                if r.chance(70) {
                    variants.push(VariantDef { disc: None, alternatives: vec![], default: false, catch_all: true });
                }

                TypeDef::Enum(EnumDef { repr: Prim::U8, variants, derive: Derive::ReadWrite })
            }
            0 => TypeDef::Enum(gen_enum(&mut r, true)),
            1 => TypeDef::Struct(gen_struct(&mut r, &b, true)),
            _ => {
                if r.chance(15) {
                    TypeDef::Enum(gen_enum(&mut r, true))
                } else {
                    TypeDef::Struct(gen_struct(&mut r, &b, false))
                }
            }
        };

        b.types.push(t);
    }

    b
}

/// A random value of `ty` (`edge` selects boundary patterns).
pub fn gen_val(r: &mut Rng, b: &Batch, ty: &Ty, width_bits: Option<usize>, in_range: bool) -> Val {
    match ty {
        Ty::Prim(p) => {
            let raw = match r.below(6) {
                0 => 0u128,
                1 => u128::MAX,
                2 => 1u128 << r.below(64),
                _ => r.next() as u128 | ((r.next() as u128) << 64),
            };

            let v = match p {
                Prim::Bool => i128::from(raw & 1 == 1),
                Prim::F32 => i128::from(raw as u32),
                Prim::F64 => i128::from(raw as u64),
                _ => prim_from(*p, &raw.to_le_bytes()),
            };

            match (p, width_bits) {
                (Prim::U8, Some(w)) if w < 8 && in_range => Val::Int(v & ((1 << w) - 1)),
                _ => Val::Int(v),
            }
        }
        Ty::Bytes(n) => Val::Bytes((0..*n).map(|_| r.next() as u8).collect()),
        Ty::Arr(t, n) => Val::Arr((0..*n).map(|_| gen_val(r, b, t, None, in_range)).collect()),
        Ty::Named(i) => match &b.types[*i] {
            TypeDef::Struct(s) => Val::Struct(
                s.fields
                    .iter()
                    .filter(|f| !f.skip)
                    .map(|f| gen_val(r, b, &f.ty, Some(f.bits), in_range))
                    .collect(),
            ),
            TypeDef::Enum(e) => {
                let vi = r.below(e.variants.len());
                let sub = width_bits.filter(|w| *w < 8);

                let mut break_val: Option<Val> = None;

                if e.variants[vi].catch_all {
                    // A payload that is not one of the named values (otherwise the round trip
                    // legitimately lands on the named variant)
                    let (lo, hi) = repr_range(e.repr);
                    let discs = Batch::discriminants(e);

                    if let (Some(_), false) = (sub, in_range) {
                        // Oversize in-type payload for a sub-byte field: must not leak outside it
                        break_val = Some(Val::Enum(vi, hi));
                    }

                    let (lo, hi) = match sub {
                        Some(w) => (0, (1i128 << w) - 1),
                        None => (lo, hi),
                    };

                    let mut tries = 0;

                    if let Some(v) = break_val {
                        return v;
                    }

                    loop {
                        tries += 1;

                        if tries > 200 {
                            // every representable payload is a named value: use a named variant
                            break Val::Enum(0, 0);
                        }

                        let p = lo + (r.next() as i128).rem_euclid(hi - lo + 1);
                        let named = e.variants.iter().enumerate().any(|(k, v)| !v.catch_all && (discs[k] == p || v.alternatives.contains(&p)));

                        if !named {
                            break Val::Enum(vi, p);
                        }
                    }
                } else {
                    Val::Enum(vi, 0)
                }
            }
        },
    }
}

/// Whether a sub-byte enum field of `bits` width can represent every discriminant it may hold
/// (otherwise the declared layout itself truncates the value and no round trip is claimed).
pub fn enum_fits(e: &EnumDef, bits: usize) -> bool {
    let discs = Batch::discriminants(e);

    e.variants.iter().enumerate().all(|(i, v)| v.catch_all || (discs[i] >= 0 && discs[i] < (1 << bits)))
}
