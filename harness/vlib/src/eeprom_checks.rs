//! C12 / C13 / C14 through the verif-hooks EEPROM façade over an in-memory provider.

use crate::{ensure, fail};
use crate::{
    core::*,
    sii::{self, Category, MemProvider, SiiDesc},
    util::block_on_bounded,
};
use embedded_io_async::{Read, Write};
use ethercrab::{
    error::{EepromError, Error},
    verif::SiiQueries,
};
use proptest::prelude::*;
use serde::{Deserialize, Serialize};

const POLLS: usize = 64;

fn run<F: std::future::Future>(f: F) -> F::Output {
    // The in-memory provider never returns Pending
    block_on_bounded(f, POLLS).expect("in-memory EEPROM future must not stay pending")
}

/// The crate's documented normalisation of EEPROM strings: NULs stripped, non-ASCII -> '?'.
fn normalise(s: &[u8]) -> String {
    s.iter()
        .filter(|c| **c != 0)
        .map(|c| if c.is_ascii() { *c as char } else { '?' })
        .collect()
}

// ---------------------------------------------------------------------------------------------
// C12
// ---------------------------------------------------------------------------------------------

#[derive(Serialize, Deserialize, Clone, Debug, PartialEq, Eq, Hash)]
pub struct C12Case {
    pub desc: SiiDesc,
    pub chunk8: bool,
    /// (start selector, length selector, kind) — mapped onto the image at run time
    pub reads: Vec<(u16, u16, u8)>,
}

pub fn c12_case() -> impl Strategy<Value = C12Case> {
    (sii::desc(), any::<bool>(), prop::collection::vec((any::<u16>(), any::<u16>(), 0u8..6), 1..12)).prop_map(|(desc, chunk8, reads)| C12Case { desc, chunk8, reads })
}

pub const C12_RULE: &str = "case = (device description -> image by the independent SII encoder, chunk size 4/8, range reads + every parsed query); non-trivial = the image has >= 3 categories including an unknown one before a queried one, or a range read ends mid-chunk / has an odd length / crosses a chunk; distinct by hash of the case";

fn cap_err(e: &Error) -> bool {
    matches!(e, Error::Capacity(_) | Error::StringTooLong { .. })
}

pub fn run_c12(case: &C12Case, info: &mut CaseInfo) -> Result<(), Fail> {
    let d = &case.desc;
    let image = d.encode();
    let chunk = if case.chunk8 { 8 } else { 4 };
    let prov = MemProvider::new(image.clone(), chunk);
    let q = SiiQueries::new(prov.clone());

    let mut interesting_read = false;

    // ---- range reads
    for (i, (ssel, lsel, kind)) in case.reads.iter().enumerate() {
        let total_words = image.len() / 2;

        // Start word: biased to chunk boundaries / end of image / >= 0x8000 by kind
        let start_word = match kind {
            0 => idx(*ssel, total_words.min(0x1_0000)),
            1 => idx(*ssel, 0x60.min(total_words)),
            2 => total_words.saturating_sub(1 + idx(*ssel, 40.min(total_words))),
            3 => (idx(*ssel, total_words.min(0x1_0000)) / 4) * 4 + usize::from(ssel & 3),
            4 => {
                if total_words > 0x8000 {
                    0x8000 + idx(*ssel, (total_words - 0x8000).min(0x8000))
                } else {
                    idx(*ssel, total_words)
                }
            }
            _ => idx(*ssel, total_words.min(0x1_0000)),
        };

        if start_word >= total_words.min(0x1_0000) {
            continue;
        }

        let max_len = (image.len() - start_word * 2).min(300);
        let len = match lsel % 4 {
            0 => idx(*lsel, 18.min(max_len + 1)),
            _ => idx(*lsel, max_len + 1),
        };

        if len % 2 == 1 || (start_word * 2 + len) % chunk != 0 || len > chunk {
            interesting_read = true;
        }

        let mut buf = vec![0xc5u8; len + 8];
        let mut reader = q.start_at(start_word as u16, len as u16);

        let res = run(reader.read(&mut buf[..len]));

        let expect = &image[start_word * 2..start_word * 2 + len];

        match res {
            Ok(n) => {
                ensure!(
                    n <= len && buf[..n] == expect[..n],
                    "C12|range-read-wrong-bytes",
                    "read #{i} of {len} bytes at word {start_word:#x} (chunk {chunk}): returned {n} bytes {} but the image holds {}",
                    crate::util::hex(&buf[..n.min(len)]),
                    crate::util::hex(expect)
                );
                ensure!(
                    buf[len..].iter().all(|b| *b == 0xc5),
                    "C12|range-read-overrun",
                    "read #{i} of {len} bytes at word {start_word:#x} wrote beyond the requested length"
                );
                ensure!(
                    n == len,
                    if len % 2 == 1 { "C12|range-read-short|odd-length" } else { "C12|range-read-short" },
                    "read #{i} of {len} bytes at word {start_word:#x} (chunk {chunk}, image {} bytes) returned only {n} bytes",
                    image.len()
                );
            }
            Err(e) => fail!(
                if start_word >= 0x8000 || start_word * 2 + len > 0xffff { "C12|range-read-error|beyond-64k" } else { "C12|range-read-error" },
                "read #{i} of {len} bytes at word {start_word:#x} (image {} bytes) failed: {e:?}",
                image.len()
            ),
        }

        // Typed read of the same range through read_exact (what eeprom_read::<T> does)
        if len > 0 && len <= 16 {
            let mut b2 = vec![0u8; len];
            let mut reader = q.start_at(start_word as u16, len as u16);

            match run(reader.read_exact(&mut b2)) {
                Ok(()) => ensure!(b2 == expect, "C12|typed-read-wrong-bytes", "read_exact of {len} bytes at word {start_word:#x}: {} != {}", crate::util::hex(&b2), crate::util::hex(expect)),
                Err(e) => fail!(
                    if len % 2 == 1 { "C12|typed-read-error|odd-length" } else if start_word >= 0x8000 || start_word * 2 + len > 0xffff { "C12|typed-read-error|beyond-64k" } else { "C12|typed-read-error" },
                    "read_exact of {len} bytes at word {start_word:#x} failed: {e:?}"
                ),
            }
        }
    }

    // ---- parsed values
    let id = run(q.identity()).map_err(|e| Fail::new("C12|identity", format!("{e:?}")))?;

    ensure!(
        (id.vendor_id, id.product_id, id.revision, id.serial) == (d.vendor, d.product, d.revision, d.serial),
        "C12|identity",
        "identity {id:?} != encoded ({:#x}, {:#x}, {:#x}, {:#x})",
        d.vendor,
        d.product,
        d.revision,
        d.serial
    );

    match run(q.size()) {
        Ok(sz) => ensure!(
            sz == d.image_len(),
            if d.size_kbit_m1 >= 511 { "C12|size|word>=511" } else { "C12|size" },
            "size() = {sz} but the EEPROM encodes {} bytes (size word {})",
            d.image_len(),
            d.size_kbit_m1
        ),
        Err(e) => fail!("C12|size", "size() failed: {e:?}"),
    }

    let alias = run(q.station_alias()).map_err(|e| Fail::new("C12|alias", format!("{e:?}")))?;

    ensure!(alias == d.alias, "C12|alias", "station_alias {alias:#x} != {:#x}", d.alias);

    let mb = run(q.mailbox_config()).map_err(|e| Fail::new("C12|mailbox", format!("{e:?}")))?;

    ensure!(
        (mb.subdevice_receive_offset, mb.subdevice_receive_size, mb.subdevice_send_offset, mb.subdevice_send_size, mb.supported_protocols)
            == (d.mbx_recv_off, d.mbx_recv_size, d.mbx_send_off, d.mbx_send_size, d.mbx_protocols),
        "C12|mailbox",
        "mailbox config {mb:?} != encoded"
    );

    let strings = d.strings().cloned().unwrap_or_default();

    match (d.general(), run(q.general())) {
        (Some(g), Ok(v)) => ensure!(
            (v.group_string_idx, v.image_string_idx, v.order_string_idx, v.name_string_idx, v.coe_details, v.foe_enabled, v.eoe_enabled, v.flags, v.ebus_current)
                == (g.group_idx, g.img_idx, g.order_idx, g.name_idx, g.coe_details, g.foe, g.eoe, g.flags, g.ebus_current),
            "C12|general",
            "general {v:?} != encoded {g:?}"
        ),
        (None, Err(Error::Eeprom(EepromError::NoCategory))) => {}
        (g, r) => fail!("C12|general", "general: encoded {g:?}, got {r:?}"),
    }

    // Name (order string, 64) and description (name string, 128). Only indices inside the
    // string table are "well-formed".
    let lookup = |idx: u8| -> Option<Option<&Vec<u8>>> {
        if idx == 0 {
            Some(None)
        } else if usize::from(idx) <= strings.len() {
            Some(Some(&strings[usize::from(idx) - 1]))
        } else {
            None
        }
    };

    if let Some(g) = d.general() {
        if let Some(expect) = lookup(g.order_idx) {
            match (expect, run(q.device_name::<64>())) {
                (None, Ok(None)) => {}
                (Some(s), Ok(Some(got))) if s.len() <= 64 => {
                    ensure!(got.as_str() == normalise(s), "C12|name", "device_name {:?} != {:?}", got.as_str(), normalise(s))
                }
                (Some(s), Err(Error::StringTooLong { .. })) if s.len() > 64 => {}
                (e, r) => fail!("C12|name", "device_name: encoded {:?}, got {r:?}", e.map(|s| normalise(s))),
            }
        }

        if let Some(expect) = lookup(g.name_idx) {
            match (expect, run(q.device_description::<128>())) {
                (None, Ok(None)) => {}
                (Some(s), Ok(Some(got))) if s.len() <= 128 => {
                    ensure!(got.as_str() == normalise(s), "C12|description", "device_description {:?} != {:?}", got.as_str(), normalise(s))
                }
                (Some(s), Err(Error::StringTooLong { .. })) if s.len() > 128 => {}
                (e, r) => fail!("C12|description", "device_description: encoded {:?}, got {r:?}", e.map(|s| normalise(s))),
            }
        }
    } else {
        match run(q.device_name::<64>()) {
            Ok(None) => {}
            r => fail!("C12|name", "no General category but device_name = {r:?}"),
        }
    }

    // Every string of the table
    for (i, s) in strings.iter().enumerate().take(255) {
        match run(q.find_string::<255>((i + 1) as u8)) {
            Ok(Some(got)) => ensure!(got.as_str() == normalise(s), "C12|string", "string {} is {:?}, encoded {:?}", i + 1, got.as_str(), normalise(s)),
            r => fail!("C12|string", "string {} ({} bytes): {r:?}", i + 1, s.len()),
        }
    }

    if d.strings().is_some() || true {
        match run(q.find_string::<16>(0)) {
            Ok(None) => {}
            r => fail!("C12|string", "string index 0 must be 'no string', got {r:?}"),
        }
    }

    // Sync managers
    let sms = match d.find(sii::CAT_SYNCM) {
        Some(Category::SyncM(s)) => s.clone(),
        _ => vec![],
    };

    match run(q.sync_managers()) {
        Ok(got) => {
            ensure!(got.len() == sms.len(), "C12|sync-managers", "{} sync managers reported, {} encoded", got.len(), sms.len());

            for (g, e) in got.iter().zip(sms.iter()) {
                ensure!(
                    (g.start_addr, g.length, g.control, g.enable, g.usage_type_raw, g.usage_type) == (e.start, e.len, e.control_byte(), e.enable, e.usage, e.effective_usage()),
                    "C12|sync-managers",
                    "sync manager {g:?} != encoded {e:?}"
                );
            }
        }
        Err(e) if cap_err(&e) && sms.len() > 8 => {}
        Err(e) => fail!("C12|sync-managers", "{e:?}"),
    }

    // FMMU usage
    let fm = match d.find(sii::CAT_FMMU) {
        Some(Category::Fmmu(f)) => f.clone(),
        _ => vec![],
    };

    match run(q.fmmus()) {
        Ok(got) => {
            // The category is padded to a whole word: an odd number of FMMUs is followed by one
            // padding byte which reads as "unused"
            let mut expect: Vec<u8> = fm.iter().map(|u| if *u == 0xff { 0 } else { *u }).collect();

            if expect.len() % 2 == 1 {
                expect.push(0);
            }

            ensure!(got.as_slice() == expect.as_slice(), "C12|fmmus", "FMMU usage {:?} != encoded {:?}", got.as_slice(), expect);
        }
        Err(e) => fail!("C12|fmmus", "{e:?}"),
    }

    let fx = match d.find(sii::CAT_FMMU_EX) {
        Some(Category::FmmuEx(f)) => f.clone(),
        _ => vec![],
    };

    match run(q.fmmu_mappings()) {
        Ok(got) => {
            let expect: Vec<u8> = fx.iter().map(|(_, sm, _)| *sm).collect();

            ensure!(got.as_slice() == expect.as_slice(), "C12|fmmu-mappings", "FMMU_EX {:?} != encoded {:?}", got.as_slice(), expect);
        }
        Err(e) => fail!("C12|fmmu-mappings", "{e:?}"),
    }

    // PDOs
    for (typ, name) in [(sii::CAT_TXPDO, "tx"), (sii::CAT_RXPDO, "rx")] {
        let pdos = match d.find(typ) {
            Some(Category::TxPdo(p)) | Some(Category::RxPdo(p)) => p.clone(),
            _ => vec![],
        };

        let got = if typ == sii::CAT_TXPDO { run(q.maindevice_read_pdos()) } else { run(q.maindevice_write_pdos()) };

        match got {
            Ok(got) => {
                ensure!(got.len() == pdos.len(), "C12|pdos", "{name}: {} PDOs reported, {} encoded", got.len(), pdos.len());

                for (g, e) in got.iter().zip(pdos.iter()) {
                    ensure!(
                        (g.index, usize::from(g.num_entries), g.sync_manager, u32::from(g.bit_len)) == (e.index, e.entries.len(), e.sm, e.bit_len()),
                        "C12|pdos",
                        "{name} PDO {g:?} != encoded index {:#x} entries {} sm {} bits {}",
                        e.index,
                        e.entries.len(),
                        e.sm,
                        e.bit_len()
                    );
                }
            }
            Err(e) if cap_err(&e) && pdos.len() > 64 => {}
            Err(e) => fail!("C12|pdos", "{name}: {e:?}"),
        }
    }

    // Classification
    let ncat = d.categories.len();
    let unknown_before_known = d
        .categories
        .iter()
        .position(|c| matches!(c, Category::Unknown { .. }))
        .map(|p| d.categories.iter().skip(p + 1).any(|c| !matches!(c, Category::Unknown { .. })))
        .unwrap_or(false);

    info.nontrivial = (ncat >= 3 && unknown_before_known) || interesting_read;

    if unknown_before_known {
        info.label("unknown-category-before-queried");
    }

    if interesting_read {
        info.label("read-odd-or-midchunk");
    }

    info.label(if case.chunk8 { "chunk-8" } else { "chunk-4" });

    if d.size_kbit_m1 >= 511 {
        info.label("size>=64KiB");
    }

    info.count("categories", ncat as u64);
    info.count("provider_reads", prov.st.reads.get());

    Ok(())
}

// ---------------------------------------------------------------------------------------------
// C13
// ---------------------------------------------------------------------------------------------

#[derive(Serialize, Deserialize, Clone, Debug, PartialEq, Eq, Hash)]
pub enum Image {
    Random { seed: u64, len: u32 },
    /// These bytes (byte-level fuzz driver)
    Raw { bytes: Vec<u8> },
    /// A well-formed image with byte-level mutations `(position selector, value)`
    Mutated { desc: SiiDesc, muts: Vec<(u32, u8)>, truncate_to: Option<u32> },
    /// Header words then hand-crafted category chain: `(type, length words, data words)`
    Chain { cats: Vec<(u16, u16, Vec<u16>)>, size_word: u16, fill: u8, total_words: u32 },
    Const { byte: u8, len: u32 },
    /// A padding category of `pad_words` words pushes a Strings and a General category towards
    /// the 64 KiB / 128 KiB boundaries.
    Far { pad_words: u16, string_lens: Vec<u8>, order_idx: u8, name_idx: u8 },
}

#[derive(Serialize, Deserialize, Clone, Debug, PartialEq, Eq, Hash)]
pub struct C13Case {
    pub image: Image,
    pub chunk8: bool,
}

impl Image {
    pub fn bytes(&self) -> Vec<u8> {
        match self {
            Image::Random { seed, len } => crate::util::bytes_from_seed(*seed, *len as usize),
            Image::Raw { bytes } => bytes.clone(),
            Image::Mutated { desc, muts, truncate_to } => {
                let mut b = desc.encode();

                // Keep the encoded part, drop the 0xff tail beyond content + a little
                let keep = (desc.content_len() + 64).min(b.len());

                b.truncate(keep.max(128));

                for (p, v) in muts {
                    let i = (*p as usize) % b.len();

                    b[i] = *v;
                }

                if let Some(t) = truncate_to {
                    let t = (*t as usize) % (b.len() + 1);

                    b.truncate(t);
                }

                b
            }
            Image::Chain { cats, size_word, fill, total_words } => {
                let mut w: Vec<u16> = vec![u16::from(*fill) * 0x0101; 0x40];

                w[0x3e] = *size_word;

                for (t, l, data) in cats {
                    w.push(*t);
                    w.push(*l);
                    w.extend_from_slice(data);
                }

                let total = (*total_words as usize).clamp(w.len(), 0x1_0000);

                w.resize(total, u16::from(*fill) * 0x0101);

                w.iter().flat_map(|x| x.to_le_bytes()).collect()
            }
            Image::Const { byte, len } => vec![*byte; *len as usize],
            Image::Far { pad_words, string_lens, order_idx, name_idx } => {
                let mut b = vec![0u8; 0x80];

                b[0x7c..0x7e].copy_from_slice(&1023u16.to_le_bytes());

                // padding category (vendor specific type)
                b.extend_from_slice(&0x2000u16.to_le_bytes());
                b.extend_from_slice(&pad_words.to_le_bytes());
                b.extend(std::iter::repeat_n(0x11u8, usize::from(*pad_words) * 2));

                // strings
                let mut sdata = vec![string_lens.len() as u8];

                for (i, l) in string_lens.iter().enumerate() {
                    sdata.push(*l);
                    sdata.extend(std::iter::repeat_n(b'a' + (i % 26) as u8, usize::from(*l)));
                }

                if sdata.len() % 2 == 1 {
                    sdata.push(0);
                }

                b.extend_from_slice(&10u16.to_le_bytes());
                b.extend_from_slice(&((sdata.len() / 2) as u16).to_le_bytes());
                b.extend_from_slice(&sdata);

                // general
                let mut g = vec![0u8; 32];

                g[2] = *order_idx;
                g[3] = *name_idx;

                b.extend_from_slice(&30u16.to_le_bytes());
                b.extend_from_slice(&16u16.to_le_bytes());
                b.extend_from_slice(&g);
                b.extend_from_slice(&0xffffu16.to_le_bytes());

                b.truncate(0x2_0000);

                b
            }
        }
    }
}

pub fn c13_case() -> impl Strategy<Value = C13Case> {
    let cat_type = prop_oneof![
        4 => prop::sample::select(vec![10u16, 30, 40, 41, 42, 50, 51]),
        2 => any::<u16>(),
        1 => Just(0u16),
        1 => Just(0xffffu16),
    ];
    let cat_len = prop_oneof![
        4 => 0u16..40,
        2 => prop::sample::select(vec![0u16, 1, 0x7fff, 0x8000, 0xfffd, 0xfffe, 0xffff, 0xffbe, 0xffbc, 0xffc0]),
        1 => any::<u16>(),
    ];

    let image = prop_oneof![
        2 => (any::<u64>(), prop_oneof![0u32..300, 0u32..5000]).prop_map(|(seed, len)| Image::Random { seed, len }),
        5 => (sii::desc(), prop::collection::vec((any::<u32>(), any::<u8>()), 0..6), prop::option::weighted(0.2, any::<u32>()))
            .prop_map(|(desc, muts, truncate_to)| Image::Mutated { desc, muts, truncate_to }),
        5 => (
            prop::collection::vec((cat_type, cat_len, prop::collection::vec(prop_oneof![any::<u16>(), Just(0xffffu16), Just(0u16)], 0..40)), 0..6),
            prop_oneof![any::<u16>(), Just(510u16), Just(511), Just(512), Just(0xffff)],
            prop_oneof![Just(0u8), Just(0xffu8), any::<u8>()],
            prop_oneof![0x40u32..0x400, Just(0x8000), Just(0x1_0000)],
        )
            .prop_map(|(cats, size_word, fill, total_words)| Image::Chain { cats, size_word, fill, total_words }),
        1 => (prop_oneof![Just(0u8), Just(0xffu8), any::<u8>()], 0u32..2000).prop_map(|(byte, len)| Image::Const { byte, len }),
        2 => (
            prop_oneof![0x7e00u16..0x8000, 0xfd00u16..=0xffff, any::<u16>()],
            prop::collection::vec(prop_oneof![0u8..40, any::<u8>()], 0..12),
            0u8..14,
            0u8..14,
        )
            .prop_map(|(pad_words, string_lens, order_idx, name_idx)| Image::Far { pad_words, string_lens, order_idx, name_idx }),
    ];

    (image, any::<bool>()).prop_map(|(image, chunk8)| C13Case { image, chunk8 })
}

pub const C13_RULE: &str = "case = (arbitrary EEPROM image: random bytes / well-formed image with byte mutations and truncation / hand-built category chains with absurd lengths / constant fill, chunk size 4/8) x every EEPROM-derived query; non-trivial = at least one category header is parsed and at least one length field is >= 0x8000 or points beyond the image, or the image is a mutated well-formed one; distinct by hash of the case";

/// Reads allowed per query: a deterministic category walk that takes more chunk reads than there
/// are (word address, empty-category count) states has revisited a state and loops forever.
pub const READ_BUDGET: u64 = 65_536 * 33;

pub fn run_c13(case: &C13Case, info: &mut CaseInfo) -> Result<(), Fail> {
    let image = case.image.bytes();
    let chunk = if case.chunk8 { 8 } else { 4 };

    // Classification from the image alone
    let word = |i: usize| -> u16 { u16::from_le_bytes([*image.get(i * 2).unwrap_or(&0xff), *image.get(i * 2 + 1).unwrap_or(&0xff)]) };
    let first_len = word(0x41);
    let has_header = image.len() >= 0x84;
    let absurd = first_len >= 0x8000 || (0x42 + usize::from(first_len)) * 2 > image.len();

    info.nontrivial = (has_header && absurd) || matches!(case.image, Image::Mutated { .. } | Image::Far { .. });

    info.label(match case.image {
        Image::Random { .. } => "random",
        Image::Raw { .. } => "raw",
        Image::Mutated { .. } => "mutated-wellformed",
        Image::Chain { .. } => "category-chain",
        Image::Const { .. } => "constant-fill",
        Image::Far { .. } => "categories-near-64k-128k",
    });

    if absurd && has_header {
        info.label("absurd-first-length");
    }

    macro_rules! query {
        ($name:literal, $call:expr) => {{
            let prov = MemProvider::new(image.clone(), chunk).with_budget(READ_BUDGET);
            let q = SiiQueries::new(prov.clone());

            let r = catch(|| block_on_bounded($call(&q), POLLS));

            match r {
                Err(p) => {
                    let site = panic_site(&p);

                    if is_repo_site(&site) {
                        fail!(format!("C13|panic|{site}|{}", $name), "{}() panicked on a {}-byte image (chunk {chunk}): {p}", $name, image.len());
                    } else {
                        fail!(format!("harness-panic|{site}"), "{p}");
                    }
                }
                Ok(None) => fail!(format!("C13|pending|{}", $name), "{}() did not complete", $name),
                Ok(Some(_)) => {}
            }

            if prov.st.budget_exceeded.get() {
                fail!(
                    format!("C13|loops-forever|{}", $name),
                    "{}() on a {}-byte image (chunk {chunk}) issued more than {READ_BUDGET} chunk reads: the category walk revisits a state and never terminates",
                    $name,
                    image.len()
                );
            }

            info.count("provider_reads", prov.st.reads.get());
        }};
    }

    query!("identity", async |q: &SiiQueries<MemProvider>| { q.identity().await.map(|_| ()) });
    query!("size", async |q: &SiiQueries<MemProvider>| { q.size().await.map(|_| ()) });
    query!("station_alias", async |q: &SiiQueries<MemProvider>| { q.station_alias().await.map(|_| ()) });
    query!("mailbox_config", async |q: &SiiQueries<MemProvider>| { q.mailbox_config().await.map(|_| ()) });
    query!("general", async |q: &SiiQueries<MemProvider>| { q.general().await.map(|_| ()) });
    query!("device_name", async |q: &SiiQueries<MemProvider>| { q.device_name::<64>().await.map(|_| ()) });
    query!("device_description", async |q: &SiiQueries<MemProvider>| { q.device_description::<128>().await.map(|_| ()) });
    query!("sync_managers", async |q: &SiiQueries<MemProvider>| { q.sync_managers().await.map(|_| ()) });
    query!("fmmus", async |q: &SiiQueries<MemProvider>| { q.fmmus().await.map(|_| ()) });
    query!("fmmu_mappings", async |q: &SiiQueries<MemProvider>| { q.fmmu_mappings().await.map(|_| ()) });
    query!("read_pdos", async |q: &SiiQueries<MemProvider>| { q.maindevice_read_pdos().await.map(|_| ()) });
    query!("write_pdos", async |q: &SiiQueries<MemProvider>| { q.maindevice_write_pdos().await.map(|_| ()) });

    // Strings: index 0, 1, the count, one past the table, 255
    let count = image.get(0x84).copied().unwrap_or(0);

    for idx in [0u8, 1, 2, count, count.wrapping_add(1), 255] {
        query!("find_string", async |q: &SiiQueries<MemProvider>| { q.find_string::<64>(idx).await.map(|_| ()) });
    }

    Ok(())
}

// ---------------------------------------------------------------------------------------------
// C14
// ---------------------------------------------------------------------------------------------

#[derive(Serialize, Deserialize, Clone, Debug, PartialEq, Eq, Hash)]
pub struct AliasCase {
    pub alias: u16,
    pub header_seed: u64,
    pub chunk8: bool,
}

pub const C14_RULE: &str = "alias cases: every alias 0..=65535 over a fresh random EEPROM header (exhaustive); write cases: 0..64 bytes at generated word addresses; non-trivial = alias differs from the old one and the header is not all zero, or the write has an odd length; distinct by hash of the case";

pub fn run_alias(case: &AliasCase, info: &mut CaseInfo) -> Result<(), Fail> {
    let mut image = crate::util::bytes_from_seed(case.header_seed, 256);

    if case.header_seed % 17 == 0 {
        image = vec![0u8; 256];
    }

    let before = image.clone();
    let chunk = if case.chunk8 { 8 } else { 4 };
    let prov = MemProvider::new(image, chunk);
    let q = SiiQueries::new(prov.clone());

    let r = catch(|| run(q.set_station_alias(case.alias)));

    match r {
        Err(p) => fail!(format!("C14|panic|{}", panic_site(&p)), "set_station_alias({:#x}) panicked: {p}", case.alias),
        Ok(Err(e)) => fail!("C14|alias-error", "set_station_alias({:#x}) failed: {e:?}", case.alias),
        Ok(Ok(())) => {}
    }

    let after = prov.st.image.borrow().clone();

    // Expected image: alias in word 4, CRC-8 of the first 14 bytes AFTER the change in the low
    // byte of word 7 (the high byte of the checksum word is written as zero)
    let mut expect = before.clone();

    expect[8..10].copy_from_slice(&case.alias.to_le_bytes());

    let crc = sii::crc8(&expect[0..14]);

    expect[14] = crc;
    expect[15] = 0;

    for w in 0..after.len() / 2 {
        let (a, e) = (&after[w * 2..w * 2 + 2], &expect[w * 2..w * 2 + 2]);

        if a != e {
            if w == 4 {
                fail!("C14|alias-word", "alias word is {:02x?}, expected {:02x?}", a, e);
            } else if w == 7 {
                fail!("C14|checksum-word", "checksum word is {:02x?}, expected {:02x?} (CRC-8 poly 0x07 init 0xFF over the first 14 bytes after the change)", a, e);
            } else {
                fail!("C14|other-word-changed", "word {w} changed from {:02x?} to {:02x?}", &before[w * 2..w * 2 + 2], a);
            }
        }
    }

    for (w, _) in prov.st.writes.borrow().iter() {
        ensure!(*w == 4 || *w == 7, "C14|other-word-written", "set_station_alias wrote word {w}");
    }

    match run(q.station_alias()) {
        Ok(a) => ensure!(a == case.alias, "C14|alias-readback", "alias reads back as {a:#x}, set {:#x}", case.alias),
        Err(e) => fail!("C14|alias-readback", "{e:?}"),
    }

    let old_alias = u16::from_le_bytes([before[8], before[9]]);

    info.nontrivial = old_alias != case.alias && before.iter().any(|b| *b != 0);

    if case.chunk8 {
        info.label("chunk-8");
    }

    Ok(())
}

#[derive(Serialize, Deserialize, Clone, Debug, PartialEq, Eq, Hash)]
pub struct WriteCase {
    pub word: u16,
    pub len: u8,
    pub seed: u64,
    pub image_words: u16,
}

pub fn write_case() -> impl Strategy<Value = WriteCase> {
    (
        prop_oneof![0u16..0x80, any::<u16>(), 0x7ff0u16..0x8010],
        0u8..=64,
        any::<u64>(),
        prop_oneof![Just(0x80u16), Just(0x400), Just(0x8000), Just(0xffff)],
    )
        .prop_map(|(word, len, seed, image_words)| WriteCase { word, len, seed, image_words })
}

pub fn run_write(case: &WriteCase, info: &mut CaseInfo) -> Result<(), Fail> {
    let image_len = usize::from(case.image_words) * 2 + if case.image_words == 0xffff { 2 } else { 0 };
    let word = usize::from(case.word) % (image_len / 2);
    let len = usize::from(case.len).min(image_len - word * 2);
    let image = crate::util::bytes_from_seed(case.seed ^ 0x77, image_len);
    let before = image.clone();
    let prov = MemProvider::new(image, 4);
    let q = SiiQueries::new(prov.clone());
    let data = crate::util::bytes_from_seed(case.seed, len);

    let r = catch(|| {
        let mut w = q.start_at(word as u16, len as u16);

        run(w.write_all(&data))
    });

    let odd = len % 2 == 1;

    match r {
        Err(p) => fail!(
            format!("C14|write-panic{}|{}", if odd { "|odd-length" } else { "" }, panic_site(&p)),
            "write of {len} bytes at word {word:#x} panicked: {p}"
        ),
        Ok(Err(e)) => fail!(
            if word >= 0x8000 || word * 2 + len > 0xffff { "C14|write-error|beyond-64k" } else { "C14|write-error" },
            "write of {len} bytes at word {word:#x} failed: {e:?}"
        ),
        Ok(Ok(())) => {}
    }

    let after = prov.st.image.borrow().clone();
    let mut expect = before.clone();

    expect[word * 2..word * 2 + len].copy_from_slice(&data);

    if odd {
        // The odd trailing byte is padded with zero
        if word * 2 + len < expect.len() {
            expect[word * 2 + len] = 0;
        }
    }

    if after != expect {
        let at = after.iter().zip(expect.iter()).position(|(a, b)| a != b).unwrap_or(0);
        let inside = at >= word * 2 && at < word * 2 + len.div_ceil(2) * 2;

        fail!(
            if inside { "C14|write-wrong-bytes" } else { "C14|write-outside-range" },
            "write of {len} bytes at word {word:#x}: byte {at} is {:#04x}, expected {:#04x}",
            after[at],
            expect[at]
        );
    }

    let lo = word as u16;
    let hi = (word + len.div_ceil(2)) as u32;

    for (w, _) in prov.st.writes.borrow().iter() {
        ensure!(*w >= lo && u32::from(*w) < hi, "C14|write-outside-range", "write of {len} bytes at word {word:#x} issued a write to word {w:#x}");
    }

    info.nontrivial = odd || len > 2;

    if odd {
        info.label("odd-length");
    }

    if word >= 0x8000 {
        info.label("word>=0x8000");
    }

    Ok(())
}
