//! Independent EtherCAT frame encoder / decoder, written from the wire format (ETG.1000.4), sharing
//! no code with ethercrab.

use serde::{Deserialize, Serialize};

pub const MASTER_MAC: [u8; 6] = [0x10; 6];
pub const REPLY_MAC: [u8; 6] = [0x12, 0x10, 0x10, 0x10, 0x10, 0x10];
pub const BROADCAST_MAC: [u8; 6] = [0xff; 6];
pub const ETHERTYPE: [u8; 2] = [0x88, 0xa4];
pub const ETH_HDR: usize = 14;
pub const ECAT_HDR: usize = 2;
pub const DG_HDR: usize = 10;
pub const DG_OVERHEAD: usize = 12;

pub const NOP: u8 = 0;
pub const APRD: u8 = 1;
pub const APWR: u8 = 2;
pub const APRW: u8 = 3;
pub const FPRD: u8 = 4;
pub const FPWR: u8 = 5;
pub const FPRW: u8 = 6;
pub const BRD: u8 = 7;
pub const BWR: u8 = 8;
pub const BRW: u8 = 9;
pub const LRD: u8 = 10;
pub const LWR: u8 = 11;
pub const LRW: u8 = 12;
pub const ARMW: u8 = 13;
pub const FRMW: u8 = 14;

/// A command as the harness generates it. The "constructor" variants go through ethercrab's public
/// constructors (`Command::aprd` etc.), the `Raw` variants build the enum directly.
#[derive(Serialize, Deserialize, Clone, Copy, Debug, PartialEq, Eq, Hash)]
pub enum Cmd {
    Nop,
    Aprd { pos: u16, reg: u16 },
    AprdRaw { adp: u16, reg: u16 },
    Fprd { addr: u16, reg: u16 },
    Brd { reg: u16 },
    BrdRaw { adp: u16, reg: u16 },
    Lrd { addr: u32 },
    Frmw { addr: u16, reg: u16 },
    Bwr { reg: u16 },
    BwrRaw { adp: u16, reg: u16 },
    Apwr { pos: u16, reg: u16 },
    ApwrRaw { adp: u16, reg: u16 },
    Fpwr { addr: u16, reg: u16 },
    Lwr { addr: u32 },
    Lrw { addr: u32 },
}

impl Cmd {
    /// Command code on the wire (ETG.1000.4 table 13).
    pub fn code(&self) -> u8 {
        match self {
            Cmd::Nop => NOP,
            Cmd::Aprd { .. } | Cmd::AprdRaw { .. } => APRD,
            Cmd::Apwr { .. } | Cmd::ApwrRaw { .. } => APWR,
            Cmd::Fprd { .. } => FPRD,
            Cmd::Fpwr { .. } => FPWR,
            Cmd::Brd { .. } | Cmd::BrdRaw { .. } => BRD,
            Cmd::Bwr { .. } | Cmd::BwrRaw { .. } => BWR,
            Cmd::Lrd { .. } => LRD,
            Cmd::Lwr { .. } => LWR,
            Cmd::Lrw { .. } => LRW,
            Cmd::Frmw { .. } => FRMW,
        }
    }

    /// The four address bytes on the wire. Auto-increment addressing sends the *negated*
    /// position so that the addressed device sees zero.
    pub fn addr_bytes(&self) -> [u8; 4] {
        fn two(adp: u16, ado: u16) -> [u8; 4] {
            let a = adp.to_le_bytes();
            let o = ado.to_le_bytes();

            [a[0], a[1], o[0], o[1]]
        }

        match *self {
            Cmd::Nop => [0; 4],
            Cmd::Aprd { pos, reg } | Cmd::Apwr { pos, reg } => {
                two((0x1_0000u32 - u32::from(pos)) as u16, reg)
            }
            Cmd::AprdRaw { adp, reg }
            | Cmd::ApwrRaw { adp, reg }
            | Cmd::BrdRaw { adp, reg }
            | Cmd::BwrRaw { adp, reg } => two(adp, reg),
            Cmd::Fprd { addr, reg } | Cmd::Fpwr { addr, reg } | Cmd::Frmw { addr, reg } => {
                two(addr, reg)
            }
            Cmd::Brd { reg } | Cmd::Bwr { reg } => two(0, reg),
            Cmd::Lrd { addr } | Cmd::Lwr { addr } | Cmd::Lrw { addr } => addr.to_le_bytes(),
        }
    }

    pub fn to_ethercrab(&self) -> ethercrab::Command {
        use ethercrab::{Command, Reads, Writes};

        match *self {
            Cmd::Nop => Command::Nop,
            Cmd::Aprd { pos, reg } => Command::aprd(pos, reg).into(),
            Cmd::AprdRaw { adp, reg } => Command::Read(Reads::Aprd {
                address: adp,
                register: reg,
            }),
            Cmd::Fprd { addr, reg } => Command::fprd(addr, reg).into(),
            Cmd::Brd { reg } => Command::brd(reg).into(),
            Cmd::BrdRaw { adp, reg } => Command::Read(Reads::Brd {
                address: adp,
                register: reg,
            }),
            Cmd::Lrd { addr } => Command::Read(Reads::Lrd { address: addr }),
            Cmd::Frmw { addr, reg } => Command::frmw(addr, reg).into(),
            Cmd::Bwr { reg } => Command::bwr(reg).into(),
            Cmd::BwrRaw { adp, reg } => Command::Write(Writes::Bwr {
                address: adp,
                register: reg,
            }),
            Cmd::Apwr { pos, reg } => Command::apwr(pos, reg).into(),
            Cmd::ApwrRaw { adp, reg } => Command::Write(Writes::Apwr {
                address: adp,
                register: reg,
            }),
            Cmd::Fpwr { addr, reg } => Command::fpwr(addr, reg).into(),
            Cmd::Lwr { addr } => Command::lwr(addr).into(),
            Cmd::Lrw { addr } => Command::lrw(addr).into(),
        }
    }
}

/// One datagram as the reference encoder sees it.
#[derive(Clone, Debug, PartialEq, Eq)]
pub struct RefDatagram {
    pub code: u8,
    pub idx: u8,
    pub addr: [u8; 4],
    /// Declared length (≥ data.len(); the rest is zero padding).
    pub len: u16,
    pub data: Vec<u8>,
}

impl RefDatagram {
    pub fn wire_len(&self) -> usize {
        DG_OVERHEAD + usize::from(self.len)
    }
}

/// Encode a complete Ethernet frame carrying the given datagrams, as the MainDevice must send it.
pub fn encode_frame(dgs: &[RefDatagram]) -> Vec<u8> {
    let total: usize = dgs.iter().map(|d| d.wire_len()).sum();
    let mut out = Vec::with_capacity(ETH_HDR + ECAT_HDR + total);

    out.extend_from_slice(&BROADCAST_MAC);
    out.extend_from_slice(&MASTER_MAC);
    out.extend_from_slice(&ETHERTYPE);

    // EtherCAT header: 11 bit length, 1 reserved bit, 4 bit type (1 = datagrams)
    let hdr = (total as u16 & 0x07ff) | 0x1000;
    out.extend_from_slice(&hdr.to_le_bytes());

    for (i, d) in dgs.iter().enumerate() {
        let more = i + 1 < dgs.len();

        out.push(d.code);
        out.push(d.idx);
        out.extend_from_slice(&d.addr);

        let lenfield = (d.len & 0x07ff) | if more { 0x8000 } else { 0 };
        out.extend_from_slice(&lenfield.to_le_bytes());
        // IRQ
        out.extend_from_slice(&[0, 0]);
        out.extend_from_slice(&d.data);
        out.extend(std::iter::repeat_n(0u8, usize::from(d.len) - d.data.len()));
        // WKC
        out.extend_from_slice(&[0, 0]);
    }

    out
}

/// A datagram found by the decoder.
#[derive(Clone, Debug, PartialEq, Eq)]
pub struct Datagram {
    pub code: u8,
    pub idx: u8,
    pub addr: [u8; 4],
    pub len: u16,
    pub circulating: bool,
    pub more: bool,
    pub irq: u16,
    /// Offset of the data area in the Ethernet frame.
    pub data_off: usize,
    pub data: Vec<u8>,
    pub wkc: u16,
}

impl Datagram {
    pub fn adp(&self) -> u16 {
        u16::from_le_bytes([self.addr[0], self.addr[1]])
    }

    pub fn ado(&self) -> u16 {
        u16::from_le_bytes([self.addr[2], self.addr[3]])
    }

    pub fn logical(&self) -> u32 {
        u32::from_le_bytes(self.addr)
    }
}

#[derive(Clone, Debug, PartialEq, Eq)]
pub struct Decoded {
    pub dst: [u8; 6],
    pub src: [u8; 6],
    pub ecat_len: usize,
    pub datagrams: Vec<Datagram>,
}

/// Strict structural decoder: every violated well-formedness rule is an `Err` naming the rule.
pub fn decode_frame(b: &[u8]) -> Result<Decoded, String> {
    if b.len() < ETH_HDR + ECAT_HDR {
        return Err(format!("frame-too-short:{}", b.len()));
    }

    let dst: [u8; 6] = b[0..6].try_into().unwrap();
    let src: [u8; 6] = b[6..12].try_into().unwrap();

    if b[12..14] != ETHERTYPE {
        return Err("ethertype".into());
    }

    let hdr = u16::from_le_bytes([b[14], b[15]]);
    let ecat_len = usize::from(hdr & 0x07ff);

    if hdr >> 12 != 1 {
        return Err(format!("ecat-type:{}", hdr >> 12));
    }

    if hdr & 0x0800 != 0 {
        return Err("ecat-reserved-bit".into());
    }

    if b.len() != ETH_HDR + ECAT_HDR + ecat_len {
        return Err(format!(
            "ecat-len-mismatch:header says {} but {} bytes follow",
            ecat_len,
            b.len() - ETH_HDR - ECAT_HDR
        ));
    }

    let mut pos = ETH_HDR + ECAT_HDR;
    let mut datagrams = Vec::new();

    loop {
        if b.len() < pos + DG_HDR {
            return Err(format!("datagram-header-truncated@{pos}"));
        }

        let code = b[pos];
        let idx = b[pos + 1];
        let addr: [u8; 4] = b[pos + 2..pos + 6].try_into().unwrap();
        let lf = u16::from_le_bytes([b[pos + 6], b[pos + 7]]);
        let len = lf & 0x07ff;
        let more = lf & 0x8000 != 0;
        let circulating = lf & 0x4000 != 0;

        if lf & 0x3800 != 0 {
            return Err(format!("datagram-reserved-bits@{pos}"));
        }

        let irq = u16::from_le_bytes([b[pos + 8], b[pos + 9]]);
        let data_off = pos + DG_HDR;
        let end = data_off + usize::from(len) + 2;

        if b.len() < end {
            return Err(format!("datagram-data-truncated@{pos}"));
        }

        let data = b[data_off..data_off + usize::from(len)].to_vec();
        let wkc = u16::from_le_bytes([b[end - 2], b[end - 1]]);

        datagrams.push(Datagram {
            code,
            idx,
            addr,
            len,
            circulating,
            more,
            irq,
            data_off,
            data,
            wkc,
        });

        pos = end;

        if !more {
            break;
        }
    }

    if pos != b.len() {
        return Err(format!(
            "trailing-bytes:last datagram ends at {pos}, frame is {}",
            b.len()
        ));
    }

    Ok(Decoded {
        dst,
        src,
        ecat_len,
        datagrams,
    })
}

/// Check that a frame the MainDevice transmitted is well-formed (C04, structural part).
pub fn check_tx_wellformed(b: &[u8], max_frame: usize) -> Result<Decoded, String> {
    let d = decode_frame(b)?;

    if d.dst != BROADCAST_MAC {
        return Err("dst-not-broadcast".into());
    }

    if d.src != MASTER_MAC {
        return Err("src-not-maindevice".into());
    }

    if b.len() > max_frame {
        return Err(format!("frame-exceeds-size:{}>{}", b.len(), max_frame));
    }

    for (i, dg) in d.datagrams.iter().enumerate() {
        if dg.wkc != 0 {
            return Err(format!("wkc-nonzero@{i}"));
        }

        if dg.irq != 0 {
            return Err(format!("irq-nonzero@{i}"));
        }

        if dg.circulating {
            return Err(format!("circulating-set@{i}"));
        }

        if dg.code > FRMW {
            return Err(format!("unknown-command@{i}"));
        }
    }

    for i in 0..d.datagrams.len() {
        for j in (i + 1)..d.datagrams.len() {
            if d.datagrams[i].idx == d.datagrams[j].idx {
                return Err(format!("duplicate-index@{i},{j}"));
            }
        }
    }

    Ok(d)
}

/// Build the frame the network returns: the sent frame with the source address' U/L bit set,
/// every datagram's data replaced by `data[i]` (must match in length) and WKC `wkc[i]`.
pub fn make_response(sent: &[u8], data: &[Vec<u8>], wkc: &[u16]) -> Vec<u8> {
    let d = decode_frame(sent).expect("make_response needs a well-formed frame");
    let mut out = sent.to_vec();

    out[6] |= 0x02;

    for (i, dg) in d.datagrams.iter().enumerate() {
        let n = usize::from(dg.len);

        if let Some(nd) = data.get(i) {
            assert_eq!(nd.len(), n);
            out[dg.data_off..dg.data_off + n].copy_from_slice(nd);
        }

        if let Some(w) = wkc.get(i) {
            out[dg.data_off + n..dg.data_off + n + 2].copy_from_slice(&w.to_le_bytes());
        }
    }

    out
}
