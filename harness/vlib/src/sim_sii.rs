//! Device-path parts of the EEPROM properties: the same questions as C12 / C13 / C14, asked through
//! the SII interface of a simulated device (`DeviceEeprom`: command register, busy polling, 4 / 8
//! byte accesses, command errors) instead of an in-memory provider.

use crate::{
    core::*,
    eeprom_checks::{self as ec},
    ensure, fail,
    sii,
    sim_checks::sim_fail,
    simexec::{self, NetHandle, SimConfig},
    simgen::{self, DevKnobs},
    simnet::{DcKind, NetSpec, Network, UploadPolicy},
    util::hex,
};
use ethercrab::error::Error;
use proptest::prelude::*;
use serde::{Deserialize, Serialize};
use std::{cell::RefCell, rc::Rc};

fn plain_knobs(chunk8: bool, busy: u8) -> DevKnobs {
    DevKnobs {
        name: b"SII".to_vec(),
        long_name: b"SII device".to_vec(),
        vendor: 0x11,
        product: 0x22,
        revision: 0x33,
        serial: 0x44,
        alias: 0,
        stale_addr: 0,
        mailbox: false,
        coe: false,
        mbx_size: 32,
        out_sms: vec![vec![vec![8, 8]]],
        in_sms: vec![vec![vec![16]]],
        fmmu_ex: false,
        dc: DcKind::None,
        chunk8,
        sii_busy_polls: busy,
        strict: false,
        unknown_cats: 1,
        input_seed: 1,
        clock_offset: 0,
        link_delay: 100,
        down_ports: 1,
        complete_access: false,
        oversampling: vec![],
        noncontig: false,
        unnamed: false,
    }
}

// ---------------------------------------------------------------------------------------------
// C12 / C14 through the device
// ---------------------------------------------------------------------------------------------

#[derive(Serialize, Deserialize, Clone, Debug, PartialEq, Eq, Hash)]
pub enum SiiOp {
    /// eeprom_read_raw(word, len bytes)
    Read { word: u16, len: u8 },
    Size,
    /// set_alias_address(alias) with the device answering `naks` command errors per word first
    SetAlias { alias: u16, naks: u8 },
    /// The device stays busy for ever during this read
    ReadStuck { word: u16 },
}

#[derive(Serialize, Deserialize, Clone, Debug, PartialEq, Eq, Hash)]
pub struct SiiDevCase {
    pub chunk8: bool,
    pub busy: u8,
    pub header: [u16; 4],
    pub alias0: u16,
    pub ops: Vec<SiiOp>,
}

pub fn sii_dev_case() -> impl Strategy<Value = SiiDevCase> {
    (
        any::<bool>(),
        0u8..4,
        any::<[u16; 4]>(),
        any::<u16>(),
        prop::collection::vec(
            prop_oneof![
                5 => (prop_oneof![3 => 0u16..0x80, 1 => 0u16..0x400], 0u8..=33).prop_map(|(word, len)| SiiOp::Read { word, len }),
                1 => Just(SiiOp::Size),
                3 => (any::<u16>(), prop_oneof![3 => Just(0u8), 2 => 1u8..=19, 2 => 20u8..=25]).prop_map(|(alias, naks)| SiiOp::SetAlias { alias, naks }),
                1 => (0u16..0x80).prop_map(|word| SiiOp::ReadStuck { word }),
            ],
            1..8,
        ),
    )
        .prop_map(|(chunk8, busy, header, alias0, ops)| SiiDevCase { chunk8, busy, header, alias0, ops })
}

pub const SII_DEV_RULE_C12: &str = "device path: the same range reads through the SII interface of a simulated device (4 / 8 bytes per access, 0..3 busy polls per command, interleaved with alias writes)";

/// Returns the violations of C12 clauses and of C14 clauses separately (signatures carry the id).
pub fn run_sii_dev(case: &SiiDevCase, property: &str, info: &mut CaseInfo) -> Result<(), Fail> {
    let mut k = plain_knobs(case.chunk8, case.busy);

    k.alias = case.alias0;

    let mut spec = NetSpec { devices: vec![k.build(None, [true, false, false, false], simgen::accept_all(), UploadPolicy::Auto, vec![])] };

    spec.devices[0].sii.cfg = case.header;

    let net: NetHandle = Rc::new(RefCell::new(Network::new(&spec)));
    // a handful of EEPROM accesses: far below this budget unless a busy wait never ends
    let cfg = SimConfig { frame_budget: 200_000, ..Default::default() };
    let c = case.clone();
    let net2 = net.clone();

    #[derive(Debug)]
    enum Out {
        Read(Result<Vec<u8>, String>, Vec<u8>),
        Size(Result<usize, String>, usize),
        Alias { res: Result<(), String>, before: Vec<u8>, after: Vec<u8>, writes: Vec<(u16, [u8; 2])>, alias: u16, naks: u8, reported: Result<u16, String> },
        Stuck(Result<Vec<u8>, String>),
    }

    let res: Result<Vec<Out>, Error> = simexec::run(&net, &cfg, |md| {
        Box::pin(async move {
            let mut group = md.init_single_group::<2, 8>(|| 0).await?;
            let mut outs = Vec::new();

            for op in &c.ops {
                match op {
                    SiiOp::Read { word, len } => {
                        let sd = group.subdevice(md, 0)?;
                        let mut buf = vec![0u8; usize::from(*len)];
                        let r = sd.eeprom_read_raw(md, *word, &mut buf).await.map(|n| buf[..n].to_vec()).map_err(|e| format!("{e:?}"));
                        let n = net2.borrow();
                        let a = usize::from(*word) * 2;
                        let want: Vec<u8> = (a..a + usize::from(*len)).map(|i| *n.devices[0].eeprom.get(i).unwrap_or(&0xff)).collect();

                        outs.push(Out::Read(r, want));
                    }
                    SiiOp::Size => {
                        let sd = group.subdevice(md, 0)?;
                        let r = sd.eeprom_size(md).await.map_err(|e| format!("{e:?}"));
                        let n = net2.borrow();
                        let word = u16::from_le_bytes([n.devices[0].eeprom[0x7c], n.devices[0].eeprom[0x7d]]);

                        outs.push(Out::Size(r, (usize::from(word) + 1) * 128));
                    }
                    SiiOp::SetAlias { alias, naks } => {
                        let before = net2.borrow().devices[0].eeprom.clone();

                        {
                            let mut n = net2.borrow_mut();

                            n.devices[0].sii_write_naks = *naks;
                            n.devices[0].stats.sii_writes.clear();
                            n.devices[0].stats.sii_write_cmds.clear();
                        }

                        let res = {
                            let mut it = group.iter_mut(md);
                            let mut sd = it.next().unwrap();

                            sd.set_alias_address(*alias).await.map_err(|e| format!("{e:?}"))
                        };

                        net2.borrow_mut().devices[0].sii_write_naks = 0;

                        let reported = {
                            let sd = group.subdevice(md, 0)?;

                            sd.read_alias_address_from_eeprom(md).await.map_err(|e| format!("{e:?}"))
                        };

                        let n = net2.borrow();

                        outs.push(Out::Alias { res, before, after: n.devices[0].eeprom.clone(), writes: n.devices[0].stats.sii_write_cmds.clone(), alias: *alias, naks: *naks, reported });
                    }
                    SiiOp::ReadStuck { word } => {
                        net2.borrow_mut().devices[0].sii_stuck = true;

                        let sd = group.subdevice(md, 0)?;
                        let mut buf = vec![0u8; 6];
                        let r = sd.eeprom_read_raw(md, *word, &mut buf).await.map(|n| buf[..n].to_vec()).map_err(|e| format!("{e:?}"));

                        net2.borrow_mut().devices[0].sii_stuck = false;
                        outs.push(Out::Stuck(r));
                    }
                }
            }

            Ok(outs)
        })
    })
    .map_err(|e| match e {
        simexec::SimError::Watchdog => Fail::new(format!("{property}|device-access-does-not-end"), format!("the EEPROM operations {:?} had not ended after {} frames", case.ops, cfg.frame_budget)),
        e => sim_fail(property, e),
    })?;

    let outs = match res {
        Ok(o) => o,
        Err(e) => fail!(format!("{property}|harness-init"), "init of the healthy device failed: {e:?}"),
    };

    info.nontrivial = case.busy > 0 || case.ops.iter().any(|o| !matches!(o, SiiOp::Read { .. }));

    if case.busy > 0 {
        info.label("device-busy-polls");
    }

    for o in &outs {
        match o {
            Out::Read(r, want) => {
                info.label("device-read");

                if property == "C12" {
                    ensure!(
                        r.as_ref().ok() == Some(want),
                        "C12|device-read-differs",
                        "eeprom_read_raw through the device ({} bytes per access, {} busy polls) returned {}, the EEPROM holds {}",
                        if case.chunk8 { 8 } else { 4 },
                        case.busy,
                        match r { Ok(b) => hex(b), Err(e) => e.clone() },
                        hex(want)
                    );
                }
            }
            Out::Size(r, want) => {
                if property == "C12" {
                    ensure!(r.as_ref().ok() == Some(want), "C12|device-size", "eeprom_size through the device returned {r:?}, the size word encodes {want}");
                }
            }
            Out::Stuck(r) => {
                info.label("device-stays-busy");

                if property == "C14" || property == "C12" {
                    ensure!(matches!(r, Err(e) if e.contains("Timeout")), format!("{property}|device-busy-for-ever"), "a device that stays busy must end in a timeout, got {r:?}");
                }
            }
            Out::Alias { res, before, after, writes, alias, naks, reported } => {
                info.label(match naks {
                    0 => "alias-write",
                    1..=19 => "alias-write-with-command-errors",
                    _ => "alias-write-command-errors-beyond-bound",
                });

                if property != "C14" {
                    continue;
                }

                // write commands issued: per word min(naks, 20) refused ones, then (if the device
                // gave in) the accepted one; the first word is word 4 (alias), the second word 7
                // (checksum)
                let per_word = usize::from((*naks).min(20)) + 1;
                let words: Vec<u16> = writes.iter().map(|w| w.0).collect();
                let mut want_words = vec![4u16; per_word];

                want_words.extend(std::iter::repeat_n(7u16, per_word));

                ensure!(res.is_ok(), "C14|device-alias-failed", "set_alias_address({alias:#06x}) through the device ({naks} command errors per word) failed: {res:?}");
                ensure!(
                    words == want_words,
                    "C14|device-write-commands",
                    "set_alias_address with a device that answers {naks} command errors per word issued write commands for words {words:?}, expected {want_words:?} (retry bound 20)"
                );

                if *naks <= 20 {
                    let mut want = before.clone();

                    want[8..10].copy_from_slice(&alias.to_le_bytes());

                    let crc = sii::crc8(&want[..14]);

                    want[14] = crc;
                    want[15] = 0;

                    if after != &want {
                        let first = after.iter().zip(want.iter()).position(|(a, b)| a != b).unwrap();

                        fail!(
                            "C14|device-eeprom-after-alias",
                            "after set_alias_address({alias:#06x}) the EEPROM differs from the expectation first at byte {first:#x}: {:#04x} instead of {:#04x} (header now {})",
                            after[first],
                            want[first],
                            hex(&after[..16])
                        );
                    }

                    ensure!(reported.as_ref().ok() == Some(alias), "C14|device-alias-reported", "alias {alias:#06x} written, read back {reported:?}");
                }
            }
        }
    }

    Ok(())
}

// ---------------------------------------------------------------------------------------------
// C13 through the device: initialisation and configuration of a device with arbitrary SII content
// ---------------------------------------------------------------------------------------------

#[derive(Serialize, Deserialize, Clone, Debug, PartialEq, Eq, Hash)]
pub struct C13DevCase {
    pub image: ec::Image,
    pub chunk8: bool,
    /// Also try to bring the group to SAFE-OP (walks sync manager, FMMU and PDO categories)
    pub configure: bool,
}

pub fn c13_dev_case() -> impl Strategy<Value = C13DevCase> {
    (ec::c13_case(), any::<bool>()).prop_map(|(c, configure)| C13DevCase { image: c.image, chunk8: c.chunk8, configure })
}

pub fn run_c13_dev(case: &C13DevCase, info: &mut CaseInfo) -> Result<(), Fail> {
    let k = plain_knobs(case.chunk8, 0);
    let spec = NetSpec { devices: vec![k.build(None, [true, false, false, false], simgen::accept_all(), UploadPolicy::Auto, vec![])] };
    let mut network = Network::new(&spec);
    let mut image = case.image.bytes();

    // the device's EEPROM is what it is; reads beyond it see 0xff
    image.truncate(1 << 17);
    network.devices[0].eeprom = image;

    let net: NetHandle = Rc::new(RefCell::new(network));
    // init of one device needs a few thousand frames; an endless category walk would not stop
    let cfg = SimConfig { frame_budget: 400_000, ..Default::default() };
    let configure = case.configure;

    let res = simexec::run(&net, &cfg, |md| {
        Box::pin(async move {
            let group = md.init_single_group::<2, 64>(|| 0).await?;

            if configure {
                let _ = group.into_safe_op(md).await?;
            }

            Ok::<(), Error>(())
        })
    });

    info.nontrivial = true;
    info.label(if case.configure { "device-init-and-configure" } else { "device-init" });

    match res {
        Ok(Ok(())) => {
            info.label("device-accepted");

            Ok(())
        }
        Ok(Err(_)) => {
            info.label("device-rejected-with-error");

            Ok(())
        }
        Err(simexec::SimError::Watchdog) => fail!("C13|device-init-does-not-end", "initialising a device with this EEPROM content had not ended after {} frames", cfg.frame_budget),
        Err(e) => Err(sim_fail("C13", e)),
    }
}
