//! Small shared helpers: deterministic payload bytes, counting wakers, a minimal block_on.

use std::{
    future::Future,
    pin::Pin,
    sync::{
        Arc,
        atomic::{AtomicU64, Ordering},
    },
    task::{Context, Poll, Wake, Waker},
};

/// Deterministic pseudo-random bytes from a seed (never all zero for len > 0, so that missing
/// writes and stale zero fills are visible).
pub fn bytes_from_seed(seed: u64, len: usize) -> Vec<u8> {
    let mut s = seed.wrapping_mul(0x9e37_79b9_7f4a_7c15) ^ 0xd1b5_4a32_d192_ed03;
    let mut out = Vec::with_capacity(len);

    for _ in 0..len {
        s ^= s << 13;
        s ^= s >> 7;
        s ^= s << 17;
        let b = (s >> 24) as u8;
        out.push(if b == 0 { 0xa5 } else { b });
    }

    out
}

/// A waker that counts how often it was woken.
#[derive(Default)]
pub struct CountWaker {
    pub wakes: AtomicU64,
}

impl CountWaker {
    pub fn new() -> Arc<Self> {
        Arc::new(Self::default())
    }

    pub fn count(&self) -> u64 {
        self.wakes.load(Ordering::SeqCst)
    }

    pub fn take(&self) -> u64 {
        self.wakes.swap(0, Ordering::SeqCst)
    }
}

impl Wake for CountWaker {
    fn wake(self: Arc<Self>) {
        self.wakes.fetch_add(1, Ordering::SeqCst);
    }

    fn wake_by_ref(self: &Arc<Self>) {
        self.wakes.fetch_add(1, Ordering::SeqCst);
    }
}

pub fn waker_of(cw: &Arc<CountWaker>) -> Waker {
    Waker::from(cw.clone())
}

/// Poll a future once with a throw-away waker.
pub fn poll_once<F: Future + ?Sized>(f: Pin<&mut F>) -> Poll<F::Output> {
    let cw = CountWaker::new();
    let w = waker_of(&cw);
    let mut cx = Context::from_waker(&w);

    f.poll(&mut cx)
}

/// Drive a future that never needs an external event to completion (in-memory providers).
/// Returns `None` if it is still pending after `max_polls` polls.
pub fn block_on_bounded<F: Future>(f: F, max_polls: usize) -> Option<F::Output> {
    let mut f = std::pin::pin!(f);

    for _ in 0..max_polls {
        if let Poll::Ready(v) = poll_once(f.as_mut()) {
            return Some(v);
        }
    }

    None
}

pub fn hex(b: &[u8]) -> String {
    let mut s = String::with_capacity(b.len() * 2);

    for x in b {
        s.push_str(&format!("{x:02x}"));
    }

    s
}
