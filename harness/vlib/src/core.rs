//! Shared plumbing: CLI, seeds, proptest driver, evidence writer, known-findings matcher, replay
//! files.

use proptest::{
    strategy::{Strategy, ValueTree},
    test_runner::{Config, RngAlgorithm, TestCaseError, TestError, TestRng, TestRunner},
};
use serde::{Serialize, de::DeserializeOwned};
use serde_json::{Value, json};
use std::{
    sync::Mutex,
    cell::RefCell,
    collections::{BTreeMap, HashSet},
    fmt::Debug,
    hash::{Hash, Hasher},
    path::PathBuf,
    time::Instant,
};

pub const VERIF_ROOT: &str = "/verif";

#[derive(Copy, Clone, Debug, PartialEq, Eq)]
pub enum Tier {
    Quick,
    Thorough,
}

impl Tier {
    pub fn name(self) -> &'static str {
        match self {
            Tier::Quick => "quick",
            Tier::Thorough => "thorough",
        }
    }

    /// `q` for quick, `t` for thorough.
    pub fn pick<T>(self, q: T, t: T) -> T {
        match self {
            Tier::Quick => q,
            Tier::Thorough => t,
        }
    }
}

#[derive(Debug, Clone)]
pub struct Args {
    pub tier: Tier,
    pub seed: u64,
    pub replay: Option<PathBuf>,
    /// Replay strictly: a known finding is reported as a violation too (used for sensitivity).
    pub strict: bool,
    pub extra: Vec<String>,
}

pub fn parse_args() -> Args {
    let mut tier = match std::env::var("VERIF_TIER").ok().as_deref() {
        Some("thorough") => Tier::Thorough,
        _ => Tier::Quick,
    };
    let mut seed: u64 = std::env::var("VERIF_SEED")
        .ok()
        .and_then(|s| s.trim().parse::<i128>().ok())
        .map(|v| v as u64)
        .unwrap_or(0);
    let mut replay = None;
    let mut strict = false;
    let mut extra = Vec::new();

    let mut it = std::env::args().skip(1);

    while let Some(a) = it.next() {
        match a.as_str() {
            "--tier" => {
                tier = match it.next().as_deref() {
                    Some("thorough") => Tier::Thorough,
                    _ => Tier::Quick,
                }
            }
            "quick" => tier = Tier::Quick,
            "thorough" => tier = Tier::Thorough,
            "--seed" => {
                seed = it
                    .next()
                    .and_then(|s| s.parse::<i128>().ok())
                    .map(|v| v as u64)
                    .unwrap_or(0)
            }
            "--replay" | "replay" => replay = it.next().map(PathBuf::from),
            "--strict" => strict = true,
            other => extra.push(other.to_string()),
        }
    }

    if seed == 0 {
        // 0 conventionally means "random"; remap to a fixed constant so runs are reproducible.
        seed = 0x5eed_c0de_0000_0001;
    }

    Args {
        tier,
        seed,
        replay,
        strict,
        extra,
    }
}

/// splitmix64 – derive independent seeds from `(seed, stream)`.
pub fn mix(seed: u64, stream: u64) -> u64 {
    let mut z = seed
        .wrapping_add(0x9e37_79b9_7f4a_7c15u64.wrapping_mul(stream.wrapping_add(1)))
        .wrapping_add(0x9e37_79b9_7f4a_7c15);
    z = (z ^ (z >> 30)).wrapping_mul(0xbf58_476d_1ce4_e5b9);
    z = (z ^ (z >> 27)).wrapping_mul(0x94d0_49bb_1331_11eb);
    z ^ (z >> 31)
}

pub fn rng_for(seed: u64) -> TestRng {
    let mut bytes = [0u8; 32];

    for (i, chunk) in bytes.chunks_mut(8).enumerate() {
        chunk.copy_from_slice(&mix(seed, i as u64).to_le_bytes());
    }

    TestRng::from_seed(RngAlgorithm::ChaCha, &bytes)
}

pub fn fingerprint<T: Hash>(t: &T) -> u64 {
    let mut h = std::collections::hash_map::DefaultHasher::new();
    t.hash(&mut h);
    h.finish()
}

pub fn fingerprint_json<T: Serialize>(t: &T) -> u64 {
    fingerprint(&serde_json::to_string(t).unwrap_or_default())
}

/// Map a 16 bit generated index monotonically onto `0..len` (shrinks towards 0).
pub fn idx(i: u16, len: usize) -> usize {
    if len == 0 {
        0
    } else {
        ((i as usize) * len) >> 16
    }
}

// ---------------------------------------------------------------------------------------------
// Known findings
// ---------------------------------------------------------------------------------------------

#[derive(Debug, Clone, serde::Deserialize)]
pub struct Finding {
    pub property: String,
    pub signature: String,
    pub what: String,
    pub status: String,
    #[serde(default)]
    pub commit: Option<String>,
    #[serde(default)]
    pub replay: Option<String>,
}

#[derive(Debug, Clone, Default, serde::Deserialize)]
pub struct KnownFindings {
    pub findings: Vec<Finding>,
}

impl KnownFindings {
    pub fn load() -> Self {
        let path = format!("{VERIF_ROOT}/known_findings.json");

        match std::fs::read_to_string(&path) {
            Ok(s) => serde_json::from_str(&s).unwrap_or_else(|e| {
                eprintln!("cannot parse {path}: {e}");
                std::process::exit(2);
            }),
            Err(_) => Self::default(),
        }
    }

    /// A *known* (not fixed) finding with exactly this signature.
    pub fn known(&self, property: &str, signature: &str) -> Option<&Finding> {
        self.findings
            .iter()
            .find(|f| f.status == "known" && f.property == property && f.signature == signature)
    }
}

// ---------------------------------------------------------------------------------------------
// Failure of one case
// ---------------------------------------------------------------------------------------------

/// A property failure on one case: a root-cause signature plus a human readable message.
#[derive(Debug, Clone)]
pub struct Fail {
    pub signature: String,
    pub message: String,
}

impl Fail {
    pub fn new(signature: impl Into<String>, message: impl Into<String>) -> Self {
        Self {
            signature: signature.into(),
            message: message.into(),
        }
    }
}

#[macro_export]
macro_rules! fail {
    ($sig:expr, $($fmt:tt)*) => {
        return Err($crate::core::Fail::new($sig, format!($($fmt)*)))
    };
}

#[macro_export]
macro_rules! ensure {
    ($cond:expr, $sig:expr, $($fmt:tt)*) => {
        if !($cond) {
            return Err($crate::core::Fail::new($sig, format!($($fmt)*)));
        }
    };
}

/// Per-case classification filled in by the property closure.
#[derive(Debug, Default, Clone)]
pub struct CaseInfo {
    pub labels: Vec<String>,
    pub nontrivial: bool,
    /// Counters accumulated over a case (e.g. ops executed).
    pub counters: Vec<(String, u64)>,
}

impl CaseInfo {
    pub fn label(&mut self, l: impl Into<String>) {
        let l = l.into();

        if !self.labels.contains(&l) {
            self.labels.push(l);
        }
    }

    pub fn count(&mut self, k: &str, n: u64) {
        if let Some(e) = self.counters.iter_mut().find(|(kk, _)| kk == k) {
            e.1 += n;
        } else {
            self.counters.push((k.to_string(), n));
        }
    }
}

// ---------------------------------------------------------------------------------------------
// Statistics and evidence
// ---------------------------------------------------------------------------------------------

#[derive(Debug, Default)]
pub struct Stats {
    pub evaluations: u64,
    pub nontrivial: HashSet<u64>,
    pub classes: BTreeMap<String, u64>,
    pub counters: BTreeMap<String, u64>,
    pub samples: Vec<Value>,
    pub kf_hits: BTreeMap<String, u64>,
    pub kf_samples: BTreeMap<String, Value>,
    pub sub_runs: Vec<Value>,
}

impl Stats {
    pub fn merge(&mut self, other: Stats) {
        self.evaluations += other.evaluations;
        self.nontrivial.extend(other.nontrivial);

        for (k, v) in other.classes {
            *self.classes.entry(k).or_default() += v;
        }

        for (k, v) in other.counters {
            *self.counters.entry(k).or_default() += v;
        }

        for s in other.samples {
            if self.samples.len() < 6 {
                self.samples.push(s);
            }
        }

        for (k, v) in other.kf_hits {
            *self.kf_hits.entry(k).or_default() += v;
        }

        for (k, v) in other.kf_samples {
            self.kf_samples.entry(k).or_insert(v);
        }

        self.sub_runs.extend(other.sub_runs);
    }

    pub fn record(&mut self, fp: u64, info: &CaseInfo, sample: impl FnOnce() -> Value) {
        self.evaluations += 1;

        if info.nontrivial {
            let new = self.nontrivial.insert(fp);

            if new && self.samples.len() < 4 {
                self.samples.push(sample());
            }
        }

        for l in &info.labels {
            *self.classes.entry(l.clone()).or_default() += 1;
        }

        for (k, n) in &info.counters {
            *self.counters.entry(k.clone()).or_default() += *n;
        }
    }
}

#[derive(Debug, Clone)]
pub struct Violation {
    pub signature: String,
    pub message: String,
    pub kind: String,
    pub case: Value,
}

pub struct Check {
    pub property: &'static str,
    pub args: Args,
    pub level: &'static str,
    pub rule: String,
    pub assumptions: Vec<String>,
    pub stats: Stats,
    pub violations: Vec<Violation>,
    pub kf: KnownFindings,
    pub extra_coverage: BTreeMap<String, Value>,
    start: Instant,
}

impl Check {
    pub fn new(property: &'static str, args: Args) -> Self {
        Self {
            property,
            args,
            level: "exploration",
            rule: String::new(),
            assumptions: Vec::new(),
            stats: Stats::default(),
            violations: Vec::new(),
            kf: KnownFindings::load(),
            extra_coverage: BTreeMap::new(),
            start: Instant::now(),
        }
    }

    pub fn tier(&self) -> Tier {
        self.args.tier
    }

    /// Run a proptest-driven sub-check, possibly in parallel over `workers` derived seeds. Each
    /// worker runs `cases` cases.
    ///
    /// `f` returns `Ok(())`, or `Err(Fail)`; failures whose signature is a known finding are
    /// counted and treated as passes so that the search continues behind them.
    pub fn run_prop<S, M, F>(&mut self, kind: &str, workers: usize, cases: u32, make_strat: M, f: F)
    where
        S: Strategy,
        M: Fn() -> S + Sync,
        S::Value: Serialize + Debug + Clone + Send,
        F: Fn(&S::Value, &mut CaseInfo) -> Result<(), Fail> + Send + Sync,
    {
        let property = self.property;
        let strict = self.args.strict;
        let kf = &self.kf;
        let base_seed = mix(self.args.seed, fingerprint(&kind));
        let t0 = Instant::now();

        let results: Vec<(Stats, Option<Violation>)> = std::thread::scope(|scope| {
            let handles: Vec<_> = (0..workers.max(1))
                .map(|w| {
                    let make_strat = &make_strat;
                    let f = &f;

                    std::thread::Builder::new()
                        .stack_size(64 << 20)
                        .spawn_scoped(scope, move || {
                            run_one_worker(
                                property,
                                kind,
                                mix(base_seed, w as u64),
                                cases,
                                make_strat(),
                                f,
                                kf,
                                strict,
                            )
                        })
                        .expect("spawn")
                })
                .collect();

            handles
                .into_iter()
                .map(|h| match h.join() {
                    Ok(r) => r,
                    Err(_) => {
                        eprintln!("worker thread panicked outside a property closure");
                        std::process::exit(2);
                    }
                })
                .collect()
        });

        let mut evals = 0;

        for (stats, violation) in results {
            evals += stats.evaluations;
            self.stats.merge(stats);

            if let Some(v) = violation {
                // Keep one violation per signature
                if !self.violations.iter().any(|x| x.signature == v.signature) {
                    self.violations.push(v);
                }
            }
        }

        self.stats.sub_runs.push(json!({
            "kind": kind,
            "workers": workers,
            "cases_per_worker": cases,
            "evaluations": evals,
            "wall_s": t0.elapsed().as_secs_f64(),
        }));
    }

    /// Record a case evaluated outside proptest (enumerations, sweeps).
    pub fn record_case(
        &mut self,
        kind: &str,
        case: &Value,
        info: &CaseInfo,
        res: Result<(), Fail>,
    ) {
        self.stats
            .record(fingerprint(&case.to_string()), info, || case.clone());

        if let Err(fail) = res {
            if !self.args.strict && self.kf.known(self.property, &fail.signature).is_some() {
                *self.stats.kf_hits.entry(fail.signature.clone()).or_default() += 1;
                self.stats
                    .kf_samples
                    .entry(fail.signature.clone())
                    .or_insert_with(|| case.clone());
            } else if !self
                .violations
                .iter()
                .any(|x| x.signature == fail.signature)
            {
                self.violations.push(Violation {
                    signature: fail.signature,
                    message: fail.message,
                    kind: kind.to_string(),
                    case: case.clone(),
                });
            }
        }
    }

    /// Run the same check binary built with another cargo profile (e.g. `checked` = overflow
    /// checks + debug assertions) as a child process and merge what it found.
    pub fn merge_profile_child(&mut self, profile: &str) {
        if std::env::var_os("VERIF_CHILD_OUT").is_some() {
            return;
        }

        let exe = std::env::current_exe().expect("current exe");
        let name = exe.file_name().unwrap().to_owned();
        let child_exe = exe.parent().unwrap().parent().unwrap().join(profile).join(name);

        if !child_exe.exists() {
            eprintln!("profile binary {} is missing (run through ./check, which builds it)", child_exe.display());
            std::process::exit(2);
        }

        let out = std::env::temp_dir().join(format!("verif-child-{}-{}-{}.json", self.property, profile, std::process::id()));
        let status = std::process::Command::new(&child_exe)
            .arg("--tier")
            .arg(self.args.tier.name())
            .arg("--seed")
            .arg(self.args.seed.to_string())
            .args(if self.args.strict { vec!["--strict"] } else { vec![] })
            .env("VERIF_CHILD_OUT", &out)
            .status();

        match status {
            Ok(st) if st.code() == Some(0) => {}
            other => {
                eprintln!("profile child {} failed: {other:?}", child_exe.display());
                std::process::exit(2);
            }
        }

        let body: Value = serde_json::from_str(&std::fs::read_to_string(&out).unwrap_or_default()).unwrap_or(Value::Null);
        let _ = std::fs::remove_file(&out);

        self.stats.evaluations += body["evaluations"].as_u64().unwrap_or(0);

        for fp in body["nontrivial"].as_array().cloned().unwrap_or_default() {
            if let Some(f) = fp.as_u64() {
                // Same case under another profile is another evaluation, not another distinct case
                self.stats.nontrivial.insert(f);
            }
        }

        for (k, v) in body["classes"].as_object().cloned().unwrap_or_default() {
            *self.stats.classes.entry(format!("{profile}:{k}")).or_default() += v.as_u64().unwrap_or(0);
        }

        for (k, v) in body["kf_hits"].as_object().cloned().unwrap_or_default() {
            *self.stats.kf_hits.entry(k).or_default() += v.as_u64().unwrap_or(0);
        }

        for v in body["violations"].as_array().cloned().unwrap_or_default() {
            let sig = v["signature"].as_str().unwrap_or("").to_string();

            if !self.violations.iter().any(|x| x.signature == sig) {
                self.violations.push(Violation {
                    signature: sig,
                    message: format!("[profile {profile}] {}", v["message"].as_str().unwrap_or("")),
                    kind: v["kind"].as_str().unwrap_or("").to_string(),
                    case: v["case"].clone(),
                });
            }
        }

        self.stats.sub_runs.push(json!({"kind": format!("profile:{profile}"), "evaluations": body["evaluations"], "sub_runs": body["sub_runs"]}));
        self.extra_coverage.insert("profiles".into(), json!(["release", profile]));
    }

    pub fn coverage(&mut self, key: &str, v: Value) {
        self.extra_coverage.insert(key.to_string(), v);
    }

    /// Write evidence, print verdict lines, and exit.
    pub fn finish(mut self) -> ! {
        if let Some(out) = std::env::var_os("VERIF_CHILD_OUT") {
            // Child of a multi-profile run: hand everything to the parent
            let body = json!({
                "evaluations": self.stats.evaluations,
                "nontrivial": self.stats.nontrivial.iter().collect::<Vec<_>>(),
                "classes": self.stats.classes,
                "kf_hits": self.stats.kf_hits,
                "sub_runs": self.stats.sub_runs,
                "violations": self.violations.iter().map(|v| json!({"signature": v.signature, "message": v.message, "kind": v.kind, "case": v.case})).collect::<Vec<_>>(),
            });

            if std::fs::write(&out, serde_json::to_string(&body).unwrap()).is_err() {
                std::process::exit(2);
            }

            std::process::exit(0);
        }

        let wall = self.start.elapsed().as_secs_f64();
        let root = PathBuf::from(VERIF_ROOT);

        // Harness errors are never reported as violations
        let harness_errors: Vec<_> = self
            .violations
            .iter()
            .filter(|v| v.signature.starts_with("harness"))
            .map(|v| format!("{}: {} case={}", v.signature, v.message, v.case))
            .collect();

        if !harness_errors.is_empty() {
            for e in harness_errors {
                eprintln!("INCONCLUSIVE harness error: {}", &e[..e.len().min(600)]);
            }

            if let Some(v) = self.violations.iter().find(|v| v.signature.starts_with("harness")) {
                let body = json!({"property": self.property, "kind": v.kind, "signature": v.signature, "message": v.message, "case": v.case});
                let _ = std::fs::write("/tmp/verif-harness-error.json", serde_json::to_string_pretty(&body).unwrap());
            }

            std::process::exit(2);
        }

        // Write replay files for violations
        let mut violation_lines = Vec::new();

        for (i, v) in self.violations.iter().enumerate() {
            let dir = root.join("replays").join(self.property);
            let _ = std::fs::create_dir_all(&dir);
            let sig_slug: String = v
                .signature
                .chars()
                .map(|c| if c.is_ascii_alphanumeric() { c } else { '-' })
                .collect();
            let path = dir.join(format!(
                "violation-{}-{}-{}.json",
                self.args.tier.name(),
                sig_slug,
                i
            ));
            let body = json!({
                "property": self.property,
                "kind": v.kind,
                "signature": v.signature,
                "message": v.message,
                "seed": self.args.seed,
                "case": v.case,
            });
            let _ = std::fs::write(&path, serde_json::to_string_pretty(&body).unwrap());

            violation_lines.push(format!(
                "VIOLATION property={} replay={}",
                self.property,
                path.display()
            ));
            eprintln!(
                "violation [{}] {}: {}",
                self.property, v.signature, v.message
            );
        }

        let mut coverage = serde_json::Map::new();

        coverage.insert("evaluations".into(), json!(self.stats.evaluations));
        coverage.insert(
            "distinct_nontrivial".into(),
            json!(self.stats.nontrivial.len()),
        );
        coverage.insert("rule".into(), json!(self.rule));
        coverage.insert("samples".into(), json!(self.stats.samples));
        coverage.insert("classes".into(), json!(self.stats.classes));
        coverage.insert("counters".into(), json!(self.stats.counters));
        coverage.insert("known_finding_hits".into(), json!(self.stats.kf_hits));
        coverage.insert("sub_runs".into(), json!(self.stats.sub_runs));

        for (k, v) in std::mem::take(&mut self.extra_coverage) {
            coverage.insert(k, v);
        }

        let evidence = json!({
            "property_id": self.property,
            "tier": self.args.tier.name(),
            "seed": (self.args.seed & 0x7fff_ffff_ffff_ffff) as i64,
            "level": self.level,
            "coverage": Value::Object(coverage),
            "assumptions": self.assumptions,
            "wall_s": wall,
            "violations": self.violations.len(),
        });

        let ev_dir = root.join("evidence");
        let _ = std::fs::create_dir_all(&ev_dir);
        let ev_path = ev_dir.join(format!("{}.json", self.property));

        if let Err(e) = std::fs::write(&ev_path, serde_json::to_string_pretty(&evidence).unwrap()) {
            eprintln!("cannot write evidence {}: {e}", ev_path.display());
            std::process::exit(2);
        }

        for (sig, n) in &self.stats.kf_hits {
            let what = self
                .kf
                .known(self.property, sig)
                .map(|f| f.what.clone())
                .unwrap_or_default();

            println!(
                "KNOWN-FINDING: property={} signature={} hits={} {}",
                self.property, sig, n, what
            );
        }

        println!(
            "{} {} seed={} evaluations={} distinct_nontrivial={} violations={} wall={:.1}s",
            self.property,
            self.args.tier.name(),
            self.args.seed,
            self.stats.evaluations,
            self.stats.nontrivial.len(),
            self.violations.len(),
            wall
        );

        if !violation_lines.is_empty() {
            for l in violation_lines {
                println!("{l}");
            }

            std::process::exit(1);
        }

        // Generator health: a check that explored (almost) nothing non-trivial must not pass
        // vacuously.
        if self.stats.nontrivial.len() < 2 {
            eprintln!("self-test failed: fewer than 2 distinct non-trivial cases were generated");
            std::process::exit(2);
        }

        std::process::exit(0);
    }
}

// ---------------------------------------------------------------------------------------------
// Crash guard: memory-unsafe behaviour of the code under test (SIGSEGV / SIGBUS / SIGABRT / SIGILL)
// must surface as a violation with a replay file, not as a dead check process.
// ---------------------------------------------------------------------------------------------

const CRASH_SLOTS: usize = 64;
const CRASH_SLOT_BYTES: usize = 1 << 20;

static CRASH_BUFS: [std::sync::atomic::AtomicPtr<u8>; CRASH_SLOTS] = [const { std::sync::atomic::AtomicPtr::new(std::ptr::null_mut()) }; CRASH_SLOTS];
static CRASH_LENS: [std::sync::atomic::AtomicUsize; CRASH_SLOTS] = [const { std::sync::atomic::AtomicUsize::new(0) }; CRASH_SLOTS];
static CRASH_PATH: std::sync::atomic::AtomicPtr<u8> = std::sync::atomic::AtomicPtr::new(std::ptr::null_mut());
static CRASH_LINE: std::sync::atomic::AtomicPtr<u8> = std::sync::atomic::AtomicPtr::new(std::ptr::null_mut());
static CRASH_HEAD: std::sync::atomic::AtomicPtr<u8> = std::sync::atomic::AtomicPtr::new(std::ptr::null_mut());
static CRASH_ON: std::sync::atomic::AtomicBool = std::sync::atomic::AtomicBool::new(false);

thread_local! {
    static CRASH_SLOT: std::cell::Cell<usize> = const { std::cell::Cell::new(usize::MAX) };
}

static CRASH_NEXT_SLOT: std::sync::atomic::AtomicUsize = std::sync::atomic::AtomicUsize::new(0);

fn leak_cstr(s: String) -> *mut u8 {
    let mut v = s.into_bytes();

    v.push(0);

    Box::leak(v.into_boxed_slice()).as_mut_ptr()
}

extern "C" fn crash_handler(sig: libc::c_int) {
    use std::sync::atomic::Ordering::SeqCst;

    unsafe {
        let path = CRASH_PATH.load(SeqCst);
        let fd = libc::open(path.cast(), libc::O_WRONLY | libc::O_CREAT | libc::O_TRUNC, 0o644);

        if fd >= 0 {
            let head = CRASH_HEAD.load(SeqCst);

            libc::write(fd, head.cast(), libc::strlen(head.cast()));

            let digits = [b'0' + (sig / 10) as u8, b'0' + (sig % 10) as u8];

            libc::write(fd, digits.as_ptr().cast(), 2);
            libc::write(fd, b"\",\"case\":[".as_ptr().cast(), 10);

            let mut first = true;

            for i in 0..CRASH_SLOTS {
                let p = CRASH_BUFS[i].load(SeqCst);
                let l = CRASH_LENS[i].load(SeqCst);

                if !p.is_null() && l > 0 {
                    if !first {
                        libc::write(fd, b",".as_ptr().cast(), 1);
                    }

                    first = false;
                    libc::write(fd, p.cast(), l);
                }
            }

            libc::write(fd, b"]}\n".as_ptr().cast(), 3);
            libc::close(fd);
        }

        let line = CRASH_LINE.load(SeqCst);

        libc::write(1, line.cast(), libc::strlen(line.cast()));
        libc::_exit(1);
    }
}

/// Install the crash guard for `property`. From then on every case a `run_prop` worker is about
/// to evaluate is recorded, and a fatal signal writes those cases to a replay file and reports a
/// violation.
pub fn install_crash_guard(property: &str) {
    use std::sync::atomic::Ordering::SeqCst;

    let dir = format!("{VERIF_ROOT}/replays/{property}");
    let _ = std::fs::create_dir_all(&dir);
    let path = format!("{dir}/violation-crash.json");

    CRASH_LINE.store(leak_cstr(format!("VIOLATION property={property} replay={path}\n")), SeqCst);
    CRASH_HEAD.store(
        leak_cstr(format!("{{\"property\":\"{property}\",\"kind\":\"crash\",\"message\":\"the check process received a fatal signal while evaluating one of the listed cases\",\"signature\":\"{property}|crash|signal-")),
        SeqCst,
    );
    CRASH_PATH.store(leak_cstr(path), SeqCst);

    unsafe {
        // Alternate stack so that stack overflows are caught too
        let stack_size = 1 << 16;
        let stack = Box::leak(vec![0u8; stack_size].into_boxed_slice());
        let ss = libc::stack_t {
            ss_sp: stack.as_mut_ptr().cast(),
            ss_flags: 0,
            ss_size: stack_size,
        };

        libc::sigaltstack(&ss, std::ptr::null_mut());

        for sig in [libc::SIGSEGV, libc::SIGBUS, libc::SIGABRT, libc::SIGILL] {
            let mut sa: libc::sigaction = std::mem::zeroed();

            sa.sa_sigaction = crash_handler as usize;
            sa.sa_flags = libc::SA_ONSTACK | libc::SA_RESETHAND;
            libc::sigemptyset(&mut sa.sa_mask);
            libc::sigaction(sig, &sa, std::ptr::null_mut());
        }
    }

    CRASH_ON.store(true, SeqCst);
}

// ---------------------------------------------------------------------------------------------
// Hang watchdog: a case that does not come back (the code under test spins inside one poll, so
// no virtual-time bound can catch it) must not leave a silent, dead check process.
// ---------------------------------------------------------------------------------------------

struct HangState {
    property: String,
    limit: std::time::Duration,
    as_violation: bool,
    running: std::collections::HashMap<std::thread::ThreadId, (Instant, String, String)>,
}

static HANG: Mutex<Option<HangState>> = Mutex::new(None);

/// From now on every case is timed by a watchdog thread. A case that runs longer than
/// `limit_secs` (wall clock; simulated cases take milliseconds) is written to a replay file and
/// the process exits: with a VIOLATION line if the property itself promises that the call
/// returns (`as_violation`), otherwise with exit code 2 (inconclusive).
pub fn install_hang_watchdog(property: &str, limit_secs: u64, as_violation: bool) {
    *HANG.lock().unwrap() = Some(HangState {
        property: property.to_string(),
        limit: std::time::Duration::from_secs(limit_secs),
        as_violation,
        running: Default::default(),
    });

    std::thread::spawn(|| {
        loop {
            std::thread::sleep(std::time::Duration::from_millis(500));

            let g = HANG.lock().unwrap();
            let Some(h) = g.as_ref() else { continue };

            if let Some((started, kind, case)) = h.running.values().find(|(t, ..)| t.elapsed() > h.limit) {
                let dir = format!("{VERIF_ROOT}/replays/{}", h.property);
                let _ = std::fs::create_dir_all(&dir);
                let path = format!("{dir}/violation-does-not-return.json");
                let msg = format!("the case had not returned after {} s of wall clock time (cases of this check take milliseconds)", started.elapsed().as_secs());
                let body = format!(
                    "{{\"property\":{:?},\"kind\":{:?},\"signature\":\"{}|does-not-return\",\"message\":{:?},\"case\":{}}}\n",
                    h.property, kind, h.property, msg, case
                );
                let _ = std::fs::write(&path, body);

                eprintln!("[{}] {}|does-not-return: {msg}", h.property, h.property);

                if h.as_violation {
                    println!("VIOLATION property={} replay={path}", h.property);
                    std::process::exit(1);
                } else {
                    println!("INCONCLUSIVE property={} case does not return, replay={path}", h.property);
                    std::process::exit(2);
                }
            }
        }
    });
}

/// The calling thread starts evaluating `value`.
pub fn hang_begin<T: Serialize>(kind: &str, value: &T) {
    let mut g = HANG.lock().unwrap();

    if let Some(h) = g.as_mut() {
        h.running.insert(std::thread::current().id(), (Instant::now(), kind.to_string(), serde_json::to_string(value).unwrap_or_else(|_| "null".into())));
    }
}

pub fn hang_end() {
    let mut g = HANG.lock().unwrap();

    if let Some(h) = g.as_mut() {
        h.running.remove(&std::thread::current().id());
    }
}

/// Record the case the calling thread is about to evaluate.
pub fn crash_record<T: Serialize>(kind: &str, value: &T) {
    use std::sync::atomic::Ordering::SeqCst;

    if !CRASH_ON.load(SeqCst) {
        return;
    }

    let slot = CRASH_SLOT.with(|c| {
        if c.get() == usize::MAX {
            c.set(CRASH_NEXT_SLOT.fetch_add(1, SeqCst) % CRASH_SLOTS);
        }

        c.get()
    });

    let mut p = CRASH_BUFS[slot].load(SeqCst);

    if p.is_null() {
        p = Box::leak(vec![0u8; CRASH_SLOT_BYTES].into_boxed_slice()).as_mut_ptr();
        CRASH_BUFS[slot].store(p, SeqCst);
    }

    let body = serde_json::to_vec(&json!({"kind": kind, "case": value})).unwrap_or_default();
    let n = body.len().min(CRASH_SLOT_BYTES);

    CRASH_LENS[slot].store(0, SeqCst);

    unsafe {
        std::ptr::copy_nonoverlapping(body.as_ptr(), p, n);
    }

    CRASH_LENS[slot].store(if n == body.len() { n } else { 0 }, SeqCst);
}

/// The candidate cases of a crash replay file: `(kind, case)`.
pub fn crash_candidates(path: &std::path::Path) -> Option<Vec<(String, Value)>> {
    let v: Value = serde_json::from_str(&std::fs::read_to_string(path).ok()?).ok()?;

    if v["kind"].as_str()? != "crash" {
        return None;
    }

    Some(
        v["case"]
            .as_array()?
            .iter()
            .map(|c| (c["kind"].as_str().unwrap_or("").to_string(), c["case"].clone()))
            .collect(),
    )
}

thread_local! {
    static LAST_PANIC: RefCell<Option<String>> = const { RefCell::new(None) };
}

/// Install a panic hook that records the panic message + location in a thread local instead of
/// printing it (the property closures use `catch_unwind` and turn panics into failures).
pub fn install_quiet_panic_hook() {
    std::panic::set_hook(Box::new(|info| {
        let msg = if let Some(s) = info.payload().downcast_ref::<&str>() {
            s.to_string()
        } else if let Some(s) = info.payload().downcast_ref::<String>() {
            s.clone()
        } else {
            "<non-string panic>".to_string()
        };

        let loc = info
            .location()
            .map(|l| format!("{}:{}", l.file(), l.line()))
            .unwrap_or_default();

        LAST_PANIC.with(|p| *p.borrow_mut() = Some(format!("{msg} @ {loc}")));

        if std::env::var("VERIF_PANIC_TRACE").is_ok() {
            eprintln!("panic: {msg} @ {loc}");
        }
    }));
}

pub fn take_last_panic() -> Option<String> {
    LAST_PANIC.with(|p| p.borrow_mut().take())
}

/// Location (`file:line`) of a recorded panic message made repo-relative and stable.
pub fn panic_site(msg: &str) -> String {
    match msg.rsplit_once(" @ ") {
        Some((_, loc)) => {
            let loc = loc.trim();
            let loc = loc.strip_prefix("/repo/").unwrap_or(loc);
            // Third-party crates: keep "<crate>-<version>/src/..." only
            let loc = match loc.find("/registry/src/") {
                Some(i) => loc[i + 14..].split_once('/').map(|(_, rest)| rest).unwrap_or(loc),
                None => loc,
            };
            // Drop the line number: signatures must survive unrelated edits
            loc.rsplit_once(':').map(|(f, _)| f).unwrap_or(loc).to_string()
        }
        None => "unknown".to_string(),
    }
}

/// Whether a panic site (as returned by `panic_site`) lies in the code under test.
pub fn is_repo_site(site: &str) -> bool {
    site.starts_with("src/") || site.starts_with("ethercrab-wire") || site.contains("/repo/")
}

/// Run `f`, converting a panic into `Err(message @ location)`.
pub fn catch<T>(f: impl FnOnce() -> T) -> Result<T, String> {
    let _ = take_last_panic();

    match std::panic::catch_unwind(std::panic::AssertUnwindSafe(f)) {
        Ok(v) => Ok(v),
        Err(_) => Err(take_last_panic().unwrap_or_else(|| "panic".to_string())),
    }
}

#[allow(clippy::too_many_arguments)]
fn run_one_worker<S, F>(
    property: &str,
    kind: &str,
    seed: u64,
    cases: u32,
    strat: S,
    f: &F,
    kf: &KnownFindings,
    strict: bool,
) -> (Stats, Option<Violation>)
where
    S: Strategy,
    S::Value: Serialize + Debug + Clone,
    F: Fn(&S::Value, &mut CaseInfo) -> Result<(), Fail>,
{
    let stats = RefCell::new(Stats::default());
    let failed = std::cell::Cell::new(false);
    let last_fail: RefCell<Option<Fail>> = RefCell::new(None);

    let config = Config {
        cases,
        failure_persistence: None,
        max_shrink_iters: 4096,
        // bounds the effort spent on minimising a failure (the verdict does not depend on it)
        max_shrink_time: 60_000,
        max_global_rejects: 1_000_000,
        ..Config::default()
    };

    let mut runner = TestRunner::new_with_rng(config, rng_for(seed));

    let result = runner.run(&strat, |value| {
        let mut info = CaseInfo::default();

        crash_record(kind, &value);
        hang_begin(kind, &value);

        let res = match catch(|| f(&value, &mut info)) {
            Ok(r) => r,
            Err(panic_msg) => Err(Fail::new(
                format!("harness-panic|{}", panic_site(&panic_msg)),
                format!("panic escaped the property closure: {panic_msg}"),
            )),
        };

        hang_end();

        match res {
            Ok(()) => {
                if !failed.get() {
                    stats
                        .borrow_mut()
                        .record(fingerprint_json(&value), &info, || {
                            serde_json::to_value(&value).unwrap_or(Value::Null)
                        });
                }

                Ok(())
            }
            Err(fail) => {
                if !strict && kf.known(property, &fail.signature).is_some() {
                    if !failed.get() {
                        let mut st = stats.borrow_mut();

                        st.record(fingerprint_json(&value), &info, || {
                            serde_json::to_value(&value).unwrap_or(Value::Null)
                        });
                        *st.kf_hits.entry(fail.signature.clone()).or_default() += 1;
                        st.kf_samples
                            .entry(fail.signature.clone())
                            .or_insert_with(|| serde_json::to_value(&value).unwrap_or(Value::Null));
                    }

                    return Ok(());
                }

                // During shrinking, only accept a simpler case that fails with the SAME
                // signature, so the replay stays on the original root cause.
                if failed.get() {
                    let same = last_fail
                        .borrow()
                        .as_ref()
                        .map(|l| l.signature == fail.signature)
                        .unwrap_or(true);

                    if !same {
                        return Ok(());
                    }
                }

                failed.set(true);
                let msg = format!("{}: {}", fail.signature, fail.message);
                *last_fail.borrow_mut() = Some(fail);

                Err(TestCaseError::fail(msg))
            }
        }
    });

    let violation = match result {
        Ok(()) => None,
        Err(TestError::Fail(_reason, value)) => {
            // Re-run the minimal case once to get its definitive signature/message
            let mut info = CaseInfo::default();

            let fail = match catch(|| f(&value, &mut info)) {
                Ok(Err(fail)) => fail,
                Ok(Ok(())) => last_fail
                    .borrow()
                    .clone()
                    .unwrap_or_else(|| Fail::new("unstable", "shrunk case no longer fails")),
                Err(p) => Fail::new(format!("harness-panic|{}", panic_site(&p)), p),
            };

            Some(Violation {
                signature: fail.signature,
                message: fail.message,
                kind: kind.to_string(),
                case: serde_json::to_value(&value).unwrap_or(Value::Null),
            })
        }
        Err(TestError::Abort(reason)) => {
            eprintln!("{property}/{kind}: proptest aborted: {reason}");
            std::process::exit(2);
        }
    };

    (stats.into_inner(), violation)
}

/// Draw one value from a strategy with a dedicated RNG (for enumerations that need a few random
/// fillers).
pub fn sample_one<S: Strategy>(strat: &S, seed: u64) -> S::Value {
    let mut runner = TestRunner::new_with_rng(
        Config {
            failure_persistence: None,
            ..Config::default()
        },
        rng_for(seed),
    );

    strat
        .new_tree(&mut runner)
        .expect("strategy must produce a value")
        .current()
}

/// Fuzz driver body shared by all targets: run the property on a case decoded from the fuzzer's
/// bytes; abort (so that the fuzzer saves the input) on a violation that is not a known finding.
/// The case is also written to `replays/<id>/violation-fuzz.json` so that the regular replay
/// command reproduces it.
pub fn fuzz_case<T, F>(property: &'static str, kind: &str, case: &T, f: F)
where
    T: Serialize,
    F: FnOnce(&T, &mut CaseInfo) -> Result<(), Fail>,
{
    static HOOK: std::sync::Once = std::sync::Once::new();

    HOOK.call_once(install_quiet_panic_hook);

    let mut info = CaseInfo::default();

    let res = match catch(|| f(case, &mut info)) {
        Ok(r) => r,
        Err(p) => {
            let site = panic_site(&p);

            if is_repo_site(&site) { Err(Fail::new(format!("{property}|panic|{site}"), p)) } else { Err(Fail::new(format!("harness-panic|{site}"), p)) }
        }
    };

    if let Err(fail) = res {
        if fail.signature.starts_with("harness") || KnownFindings::load().known(property, &fail.signature).is_some() {
            return;
        }

        let dir = format!("{VERIF_ROOT}/replays/{property}");
        let _ = std::fs::create_dir_all(&dir);
        let path = format!("{dir}/violation-fuzz.json");
        let _ = std::fs::write(&path, serde_json::to_string(&json!({"property": property, "kind": kind, "signature": fail.signature, "message": fail.message, "case": case})).unwrap_or_default());

        eprintln!("violation [{property}] {}: {}", fail.signature, fail.message);
        println!("VIOLATION property={property} replay={path}");
        std::process::abort();
    }
}

/// Load a replay file and return `(kind, case)`.
pub fn load_replay<T: DeserializeOwned>(path: &std::path::Path) -> (String, T) {
    let s = std::fs::read_to_string(path).unwrap_or_else(|e| {
        eprintln!("cannot read replay {}: {e}", path.display());
        std::process::exit(2);
    });
    let v: Value = serde_json::from_str(&s).unwrap_or_else(|e| {
        eprintln!("cannot parse replay {}: {e}", path.display());
        std::process::exit(2);
    });
    let kind = v["kind"].as_str().unwrap_or("").to_string();
    let case: T = serde_json::from_value(v["case"].clone()).unwrap_or_else(|e| {
        eprintln!("cannot decode replay case {}: {e}", path.display());
        std::process::exit(2);
    });

    (kind, case)
}

pub fn replay_kind(path: &std::path::Path) -> String {
    let s = std::fs::read_to_string(path).unwrap_or_else(|e| {
        eprintln!("cannot read replay {}: {e}", path.display());
        std::process::exit(2);
    });
    let v: Value = serde_json::from_str(&s).unwrap_or(Value::Null);

    v["kind"].as_str().unwrap_or("").to_string()
}

/// Report the outcome of a replay and exit (0 = passes, 1 = still fails).
pub fn finish_replay(property: &str, path: &std::path::Path, res: Result<(), Fail>) -> ! {
    match res {
        Ok(()) => {
            println!("replay {} passes", path.display());
            std::process::exit(0);
        }
        Err(f) => {
            eprintln!("replay fails: {}: {}", f.signature, f.message);
            println!("VIOLATION property={} replay={}", property, path.display());
            std::process::exit(1);
        }
    }
}
