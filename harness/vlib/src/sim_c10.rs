//! C10 — a group's typestate never claims a state its SubDevices are not in.
//!
//! Generated networks of 1..16 simulated devices in 1..3 groups; every device follows a generated
//! ESM script (accept after k status reads, refuse with a code, stall, accept and fall back). A
//! generated path of group transitions is run on one group, followed by process data cycles in
//! which devices are forced to report generated AL status values. The oracle is the simulator's
//! log: what each device was asked (AL control writes) and what it answered (AL status bytes
//! served).

use crate::{
    core::*,
    ensure, fail,
    sim_checks::sim_fail,
    simexec::{self, NetHandle, SimConfig},
    simgen::{self, DevKnobs},
    simnet::{Esm, NetSpec, Network},
    vclock,
};
use ethercrab::{MainDevice, SubDeviceGroup, SubDeviceState, TxRxResponse, error::Error};
use proptest::prelude::*;
use serde::{Deserialize, Serialize};
use std::{cell::RefCell, rc::Rc, time::Duration};

#[derive(Serialize, Deserialize, Clone, Copy, Debug, PartialEq, Eq, Hash)]
pub enum Path {
    /// PRE-OP -> INIT
    Init,
    /// PRE-OP -> PRE-OP with PDI, then cycles
    PreOpPdi,
    /// PRE-OP -> SAFE-OP
    SafeOp,
    /// PRE-OP -> SAFE-OP -> PRE-OP
    SafeOpPreOp,
    /// PRE-OP -> SAFE-OP -> OP in two calls
    SafeOpOp,
    /// PRE-OP -> OP in one call
    OpDirect,
    /// PRE-OP (PDI) -> OP in one call
    PdiOpDirect,
    /// ... -> OP -> SAFE-OP
    OpSafeOp,
    /// PRE-OP -> request OP without waiting, then cycles
    RequestOp,
    /// PRE-OP -> SAFE-OP -> request OP without waiting, then cycles
    SafeOpRequestOp,
    /// PRE-OP (PDI) -> INIT
    PdiInit,
}

#[derive(Serialize, Deserialize, Clone, Debug, PartialEq, Eq, Hash)]
pub enum CycleForce {
    /// Devices report their real state
    Natural,
    /// Member j reports `values[j]` (state nibble, possibly with the error bit 0x10)
    Values(Vec<u8>),
}

#[derive(Serialize, Deserialize, Clone, Debug, PartialEq, Eq, Hash)]
pub struct C10Case {
    pub devices: Vec<DevKnobs>,
    pub ngroups: u8,
    pub assign: Vec<u8>,
    /// ESM script of each device, applied after init: [INIT, PREOP, SAFEOP, OP]
    pub esm: Vec<[Esm; 4]>,
    /// PduStorage DATA (frame size); small values make a status poll span several frames
    pub frame: u16,
    pub target: u8,
    pub path: Path,
    pub cycles: Vec<CycleForce>,
    pub timeout_us: u32,
    /// Afterwards, wait network-wide (BRD) for this state (1, 2, 4, 8)
    pub md_wait: Option<u8>,
    /// Also drive a second group to SAFE-OP afterwards
    pub second_group: bool,
}

fn esm_good() -> impl Strategy<Value = Esm> {
    (0u8..6).prop_map(|after_polls| Esm::Accept { after_polls })
}

fn esm_bad() -> impl Strategy<Value = Esm> {
    prop_oneof![
        2 => prop::sample::select(vec![0x0011u16, 0x0016, 0x001d, 0x001e, 0x0030, 0x8000]).prop_map(|code| Esm::Refuse { code }),
        2 => Just(Esm::Stall),
        2 => (0u8..3, 0u8..5, prop::sample::select(vec![0x001bu16, 0x002c, 0x0032])).prop_map(|(after_polls, later_polls, code)| Esm::FallBack { after_polls, later_polls, code }),
    ]
}

fn forced_values() -> impl Strategy<Value = CycleForce> {
    let op_states = prop::sample::select(vec![1u8, 2, 4, 8]);

    prop_oneof![
        3 => Just(CycleForce::Natural),
        // all the same
        2 => (op_states.clone(), any::<bool>()).prop_map(|(s, e)| CycleForce::Values(vec![s | if e { 0x10 } else { 0 }; 16])),
        // all but one the same
        2 => (op_states.clone(), op_states.clone(), 0usize..16).prop_map(|(s, o, at)| {
            let mut v = vec![s; 16];

            v[at] = o;

            CycleForce::Values(v)
        }),
        // arbitrary mix of the four operational states, error bit at random
        3 => prop::collection::vec((op_states, prop::bool::weighted(0.2)).prop_map(|(s, e)| s | if e { 0x10 } else { 0 }), 16).prop_map(CycleForce::Values),
        // including BOOT, "no state" and combination values (labelled separately)
        1 => prop::collection::vec(prop_oneof![4 => prop::sample::select(vec![1u8, 2, 4, 8]), 1 => Just(3u8), 1 => Just(0u8), 1 => 0u8..16], 16).prop_map(CycleForce::Values),
    ]
}

pub fn c10_case() -> impl Strategy<Value = C10Case> {
    (
        prop_oneof![2 => 1usize..=3, 3 => 1usize..=8, 2 => 9usize..=16],
        1u8..=3,
        prop::sample::select(vec![60u16, 64, 72, 80, 100, 128, 256, 1100]),
        prop::sample::select(vec![
            Path::Init,
            Path::PreOpPdi,
            Path::SafeOp,
            Path::SafeOpPreOp,
            Path::SafeOpOp,
            Path::OpDirect,
            Path::PdiOpDirect,
            Path::OpSafeOp,
            Path::RequestOp,
            Path::SafeOpRequestOp,
            Path::PdiInit,
        ]),
    )
        .prop_flat_map(|(n, ngroups, frame, path)| {
            (
                prop::collection::vec(simgen::knobs(simgen::KnobRanges { max_sms: 1, max_pdos: 1, max_entries: 2, allow_dc: false, strict_pct: 0 }), n),
                prop_oneof![1 => Just(vec![0u8; n]), 2 => prop::collection::vec(0u8..ngroups, n)],
                prop::collection::vec([esm_good(), esm_good(), esm_good(), esm_good()], n),
                // 0..2 misbehaving (device, state) pairs
                prop::collection::vec((0usize..n, 0usize..4, esm_bad()), 0..=2),
                prop_oneof![2 => Just(0usize), 1 => Just(1usize)],
                prop::collection::vec(forced_values(), 0..5),
                prop::sample::select(vec![400u32, 1000, 3000]),
                prop_oneof![3 => Just(None), 2 => prop::sample::select(vec![1u8, 2, 4, 8]).prop_map(Some)],
                (0u8..3, prop::bool::weighted(0.3)),
            )
                .prop_map(move |(mut devices, assign, mut esm, bad, use_bad, cycles, timeout_us, md_wait, (target, second_group))| {
                    if frame < 400 {
                        // init and PDO configuration of mailbox devices need frames that hold a mailbox
                        for d in &mut devices {
                            d.mailbox = false;
                            d.coe = false;
                        }
                    }

                    for d in &mut devices {
                        d.sii_busy_polls = 0;
                    }

                    let bad = if use_bad == 0 { &bad[..] } else { &bad[..bad.len().min(1)] };

                    for (d, s, e) in bad {
                        esm[*d][*s] = e.clone();
                    }

                    C10Case { devices, ngroups, assign, esm, frame, target: target % ngroups, path, cycles, timeout_us, md_wait, second_group }
                })
        })
}

pub const C10_RULE: &str = "case = (1..16 generated devices assigned to 1..3 groups; per device an ESM script per requested state: accept after 0..5 status reads | refuse with an AL status code | stall | accept then fall back; frame size 60..1100 so that a status poll spans 1..6 frames; one of 11 transition paths on one group; up to 4 process data cycles with forced AL status bytes per member: all equal, all-but-one, arbitrary mixes of INIT/PRE-OP/SAFE-OP/OP with and without the error bit, BOOT/none/combination values; optional network-wide wait_for_state); non-trivial = some member lags >= 1 poll, refuses, stalls or falls back in a transition of the path, or a status poll spans >= 2 frames, or a forced cycle with >= 2 distinct states; distinct by hash of the case";

#[derive(Default)]
pub struct G10 {
    pub g: [SubDeviceGroup<16, 1024>; 3],
}

#[derive(Clone, Debug, Default)]
struct Snap {
    ctl: Vec<usize>,
    served: Vec<usize>,
}

fn snap(net: &NetHandle) -> Snap {
    let n = net.borrow();

    Snap {
        ctl: n.devices.iter().map(|d| d.stats.al_control_writes.len()).collect(),
        served: n.devices.iter().map(|d| d.stats.al_served.len()).collect(),
    }
}

#[derive(Clone, Debug)]
enum Rec {
    Step {
        name: &'static str,
        group: usize,
        /// Requested (final) state
        req: u8,
        /// The call waits for the state
        waits: bool,
        ok: bool,
        err: String,
        timeout: bool,
        t0: u64,
        t1: u64,
        before: Snap,
        after: Snap,
    },
    Cycle {
        forced: bool,
        res: Result<CycleOut, String>,
        before: Snap,
        after: Snap,
    },
    MdWait {
        req: u8,
        ok: bool,
        err: String,
        t0: u64,
        t1: u64,
        before: Snap,
        after: Snap,
    },
}

#[derive(Clone, Debug)]
struct CycleOut {
    states: Vec<u8>,
    all_op: bool,
    single: Option<u8>,
    /// is_in_state for INIT, PRE-OP, SAFE-OP, OP
    is_in: [bool; 4],
    is_in_boot: bool,
}

fn state_code(s: SubDeviceState) -> u8 {
    match s {
        SubDeviceState::None => 0,
        SubDeviceState::Init => 1,
        SubDeviceState::PreOp => 2,
        SubDeviceState::Bootstrap => 3,
        SubDeviceState::SafeOp => 4,
        SubDeviceState::Op => 8,
        SubDeviceState::Other(n) => n,
    }
}

fn code_state(c: u8) -> SubDeviceState {
    match c {
        1 => SubDeviceState::Init,
        2 => SubDeviceState::PreOp,
        4 => SubDeviceState::SafeOp,
        8 => SubDeviceState::Op,
        _ => unreachable!(),
    }
}

fn cycle_out<const N: usize>(r: &TxRxResponse<N>) -> CycleOut {
    CycleOut {
        states: r.subdevice_states.iter().map(|s| state_code(*s)).collect(),
        all_op: r.all_op(),
        single: r.group_in_single_state().map(state_code),
        is_in: [
            r.is_in_state(SubDeviceState::Init),
            r.is_in_state(SubDeviceState::PreOp),
            r.is_in_state(SubDeviceState::SafeOp),
            r.is_in_state(SubDeviceState::Op),
        ],
        is_in_boot: r.is_in_state(SubDeviceState::Bootstrap),
    }
}

const NEVER: &str = "<did not return>";

/// Run `fut`, giving up once the virtual clock has advanced `limit_us` past the last state request
/// any device received during the call (or 2 s past the start of the call, whichever comes
/// first). The futures under test keep polling the network, so they are polled again after every
/// frame.
async fn bounded<T>(net: &NetHandle, limit_us: u64, fut: impl std::future::Future<Output = T>) -> Option<T> {
    let mut fut = std::pin::pin!(fut);
    let t0 = vclock::now();

    std::future::poll_fn(|cx| {
        let now = vclock::now();
        let last_req = net.borrow().devices.iter().filter_map(|d| d.stats.al_control_at.last().map(|t| t / 1000)).max().unwrap_or(0).max(t0);
        let requested = last_req > t0;

        if (requested && now > last_req + limit_us) || now > t0 + 2_000_000 {
            return std::task::Poll::Ready(None);
        }

        fut.as_mut().poll(cx).map(Some)
    })
    .await
}

async fn bounded_plain<T>(limit_us: u64, fut: impl std::future::Future<Output = T>) -> Option<T> {
    let mut fut = std::pin::pin!(fut);
    let end = vclock::now() + limit_us;

    std::future::poll_fn(|cx| {
        if vclock::now() > end {
            return std::task::Poll::Ready(None);
        }

        fut.as_mut().poll(cx).map(Some)
    })
    .await
}

struct Ctx<'a> {
    limit_us: u64,
    net: &'a NetHandle,
    recs: Rc<RefCell<Vec<Rec>>>,
    members: Vec<usize>,
    cycles: &'a [CycleForce],
    group: usize,
}

impl Ctx<'_> {
    async fn step<T>(&self, name: &'static str, req: u8, waits: bool, fut: impl std::future::Future<Output = Result<T, Error>>) -> Option<T> {
        let before = snap(self.net);
        let t0 = vclock::now();
        let r = bounded(self.net, self.limit_us, fut).await;
        let t1 = vclock::now();
        let after = snap(self.net);

        let (ok, err, timeout) = match &r {
            Some(Ok(_)) => (true, String::new(), false),
            Some(Err(e)) => (false, format!("{e:?}"), matches!(e, Error::Timeout(_))),
            None => (false, NEVER.to_string(), false),
        };

        let r = r.unwrap_or(Err(Error::Internal));

        self.recs.borrow_mut().push(Rec::Step { name, group: self.group, req, waits, ok, err, timeout, t0, t1, before, after });

        r.ok()
    }

    async fn cycles<const N: usize, const P: usize, S, DC>(&self, md: &MainDevice<'_>, g: &SubDeviceGroup<N, P, ethercrab::DefaultLock, S, DC>)
    where
        S: ethercrab::subdevice_group::HasPdi,
    {
        for c in self.cycles {
            let forced = match c {
                CycleForce::Natural => false,
                CycleForce::Values(v) => {
                    let mut n = self.net.borrow_mut();

                    for (j, d) in self.members.iter().enumerate() {
                        n.devices[*d].al_force.clear();
                        n.devices[*d].al_force.push_back(v[j]);
                    }

                    true
                }
            };

            let before = snap(self.net);
            let r = g.tx_rx(md).await;
            let after = snap(self.net);

            // Unused forced values must not leak into later calls
            {
                let mut n = self.net.borrow_mut();

                for d in &self.members {
                    n.devices[*d].al_force.clear();
                }
            }

            let failed = r.is_err();

            self.recs.borrow_mut().push(Rec::Cycle {
                forced,
                res: r.as_ref().map(cycle_out).map_err(|e| format!("{e:?}")),
                before,
                after,
            });

            if failed {
                break;
            }
        }
    }
}

type Pre = SubDeviceGroup<16, 1024, ethercrab::DefaultLock, ethercrab::subdevice_group::PreOp>;

async fn run_path(cx: &Ctx<'_>, md: &MainDevice<'_>, g: Pre, path: Path) {
    match path {
        Path::Init => {
            let _ = cx.step("PreOp::into_init", 1, true, g.into_init(md)).await;
        }
        Path::PreOpPdi => {
            // not a state transition: the devices stay in PRE-OP
            if let Ok(g) = g.into_pre_op_pdi(md).await {
                cx.cycles(md, &g).await;
            }
        }
        Path::PdiInit => {
            if let Ok(g) = g.into_pre_op_pdi(md).await {
                let _ = cx.step("PreOpPdi::into_init", 1, true, g.into_init(md)).await;
            }
        }
        Path::SafeOp => {
            if let Some(g) = cx.step("PreOp::into_safe_op", 4, true, g.into_safe_op(md)).await {
                cx.cycles(md, &g).await;
            }
        }
        Path::SafeOpPreOp => {
            if let Some(g) = cx.step("PreOp::into_safe_op", 4, true, g.into_safe_op(md)).await {
                let _ = cx.step("SafeOp::into_pre_op", 2, true, g.into_pre_op(md)).await;
            }
        }
        Path::SafeOpOp => {
            if let Some(g) = cx.step("PreOp::into_safe_op", 4, true, g.into_safe_op(md)).await {
                if let Some(g) = cx.step("SafeOp::into_op", 8, true, g.into_op(md)).await {
                    cx.cycles(md, &g).await;
                }
            }
        }
        Path::OpDirect => {
            if let Some(g) = cx.step("PreOp::into_op", 8, true, g.into_op(md)).await {
                cx.cycles(md, &g).await;
            }
        }
        Path::PdiOpDirect => {
            if let Ok(g) = g.into_pre_op_pdi(md).await {
                if let Some(g) = cx.step("PreOpPdi::into_op", 8, true, g.into_op(md)).await {
                    cx.cycles(md, &g).await;
                }
            }
        }
        Path::OpSafeOp => {
            if let Some(g) = cx.step("PreOp::into_op", 8, true, g.into_op(md)).await {
                if let Some(g) = cx.step("Op::into_safe_op", 4, true, g.into_safe_op(md)).await {
                    cx.cycles(md, &g).await;
                }
            }
        }
        Path::RequestOp => {
            if let Ok(g) = g.into_pre_op_pdi(md).await {
                if let Some(g) = cx.step("PreOpPdi::request_into_op", 8, false, g.request_into_op(md)).await {
                    cx.cycles(md, &g).await;
                }
            }
        }
        Path::SafeOpRequestOp => {
            if let Some(g) = cx.step("PreOp::into_safe_op", 4, true, g.into_safe_op(md)).await {
                if let Some(g) = cx.step("SafeOp::request_into_op", 8, false, g.request_into_op(md)).await {
                    cx.cycles(md, &g).await;
                }
            }
        }
    }
}

fn nib(v: u8) -> u8 {
    v & 0x0f
}

pub fn run_c10(case: &C10Case, info: &mut CaseInfo) -> Result<(), Fail> {
    let n = case.devices.len();
    let ng = usize::from(case.ngroups);
    let spec: NetSpec = simgen::build_net(&case.devices, &[], &[]);
    let net: NetHandle = Rc::new(RefCell::new(Network::new(&spec)));

    let mut cfg = SimConfig { frame_size: usize::from(case.frame), ..Default::default() };

    cfg.timeouts.state_transition = Duration::from_micros(u64::from(case.timeout_us));

    let group_of = |i: usize| usize::from(case.assign[i]) % ng;
    let target = usize::from(case.target);
    let members: Vec<usize> = (0..n).filter(|i| group_of(*i) == target).collect();
    let second = (0..ng).find(|g| *g != target);
    let members2: Vec<usize> = second.map(|s| (0..n).filter(|i| group_of(*i) == s).collect()).unwrap_or_default();

    let recs: Rc<RefCell<Vec<Rec>>> = Rc::new(RefCell::new(Vec::new()));
    let net2 = net.clone();
    let recs2 = recs.clone();
    let c = case.clone();
    let members_c = members.clone();
    let members2_c = members2.clone();

    let init: Result<(), Error> = simexec::run(&net, &cfg, |md| {
        Box::pin(async move {
            let assign = c.assign.clone();
            let ng = usize::from(c.ngroups);

            let groups = md
                .init::<16, G10>(|| 0, G10::default(), |g, sd| Ok(&g.g[usize::from(assign[usize::from(sd.configured_address() - 0x1000)]) % ng]))
                .await?;

            // From now on the devices follow their scripts
            {
                let mut n = net2.borrow_mut();

                for (i, d) in n.devices.iter_mut().enumerate() {
                    d.spec.esm = c.esm[i].clone();
                }
            }

            let [g0, g1, g2] = groups.g;
            let mut gs = [Some(g0), Some(g1), Some(g2)];
            let tg = gs[usize::from(c.target)].take().unwrap();

            let cx = Ctx { limit_us: 4 * u64::from(c.timeout_us) + 3_000, net: &net2, recs: recs2.clone(), members: members_c, cycles: &c.cycles, group: usize::from(c.target) };

            run_path(&cx, md, tg, c.path).await;

            if c.second_group {
                if let Some(s) = (0..ng).find(|g| *g != usize::from(c.target)) {
                    let g = gs[s].take().unwrap();
                    let cx2 = Ctx { limit_us: 4 * u64::from(c.timeout_us) + 3_000, net: &net2, recs: recs2.clone(), members: members2_c, cycles: &[], group: s };

                    let _ = cx2.step("PreOp::into_safe_op", 4, true, g.into_safe_op(md)).await;
                }
            }

            if let Some(s) = c.md_wait {
                let before = snap(&net2);
                let t0 = vclock::now();
                let r = bounded_plain(4 * u64::from(c.timeout_us) + 3_000, md.wait_for_state(code_state(s))).await;
                let t1 = vclock::now();
                let after = snap(&net2);

                recs2.borrow_mut().push(Rec::MdWait {
                    req: s,
                    ok: matches!(r, Some(Ok(_))),
                    err: r.map(|r| format!("{r:?}")).unwrap_or_else(|| NEVER.to_string()),
                    t0,
                    t1,
                    before,
                    after,
                });
            }

            Ok(())
        })
    })
    .map_err(|e| sim_fail("C10", e))?;

    if let Err(e) = init {
        fail!("C10|harness-init", "init of {n} healthy devices with frame size {} failed: {e:?}", case.frame);
    }

    let net = net.borrow();
    let recs = recs.borrow().clone();
    let timeout_us = u64::from(case.timeout_us);
    let checks_per_frame = (usize::from(case.frame) - 16) / 14;

    info.count("devices", n as u64);
    info.count("members", members.len() as u64);
    info.label(format!("path-{:?}", case.path));

    if members.len() > checks_per_frame {
        info.label("status-poll-spans-frames");
        info.nontrivial = true;
    }

    if members.is_empty() {
        info.label("empty-group");
    }

    for rec in &recs {
        match rec {
            Rec::Step { name, group, req, waits, ok, err, timeout, t0, t1, before, after } => {
                let mem: &[usize] = if *group == target { &members } else { &members2 };
                let is_member = |i: usize| mem.contains(&i);
                let idx = match req {
                    1 => 0,
                    2 => 1,
                    4 => 2,
                    _ => 3,
                };

                info.label(format!("step-{}", if *ok { "ok" } else if *timeout { "timeout" } else { "error" }));

                // Script classes among the members (for the final requested state)
                let lagging = mem.iter().any(|i| matches!(case.esm[*i][idx], Esm::Accept { after_polls } if after_polls > 0));
                let misbehaving = mem.iter().any(|i| !matches!(case.esm[*i][idx], Esm::Accept { .. }));
                // Any scripted misbehaviour of a member (also in an earlier stage, or a fall back
                // that strikes later) excuses a failure
                let any_script = mem.iter().any(|i| case.esm[*i].iter().any(|e| !matches!(e, Esm::Accept { .. })));

                if lagging || misbehaving {
                    info.nontrivial = true;
                }

                if misbehaving {
                    info.label("member-refuses-stalls-or-falls-back");
                }

                // (1) requests go to every member and to nobody else
                for i in 0..n {
                    let new = &net.devices[i].stats.al_control_writes[before.ctl[i]..after.ctl[i]];

                    if !is_member(i) {
                        ensure!(
                            new.is_empty(),
                            format!("C10|request-outside-group|{name}"),
                            "{name} on group {group} (members {mem:?}): device {i}, which is not in the group, received AL control write(s) {new:02x?}"
                        );
                    } else if *ok || *timeout {
                        ensure!(
                            new.iter().any(|v| nib(*v) == *req) || (*timeout && !new.is_empty()),
                            format!("C10|member-not-requested|{name}"),
                            "{name} on group {group} (members {mem:?}) returned {}: member device {i} was never asked for state {req} (AL control writes seen: {new:02x?})",
                            if *ok { "Ok".to_string() } else { err.clone() }
                        );
                    }
                }

                ensure!(
                    err != NEVER,
                    format!("C10|no-result-within-timeout|{name}"),
                    "{name} on group {group} had not returned {} us (virtual) after it was called; the transition timeout is {timeout_us} us",
                    t1 - t0
                );

                if !*waits {
                    continue;
                }

                // (2) success only if every member reported the state when last asked
                if *ok {
                    for i in mem {
                        let served = &net.devices[*i].stats.al_served[before.served[*i]..after.served[*i]];

                        ensure!(
                            served.last().map(|v| nib(*v)) == Some(*req),
                            format!("C10|ok-but-member-not-in-state|{name}"),
                            "{name} on group {group} (members {mem:?}) returned Ok, but the last AL status device {i} reported was {:02x?} (requested state {req}; all status bytes it served during the call: {served:02x?}; script {:?})",
                            served.last(),
                            case.esm[*i]
                        );
                    }
                } else {
                    // (3) an error arrives within the transition timeout, counted from the last request
                    let last_req = mem.iter().filter_map(|i| net.devices[*i].stats.al_control_at[before.ctl[*i]..after.ctl[*i]].last().copied()).max();

                    if let (true, Some(last_req)) = (*timeout, last_req) {
                        let waited = t1.saturating_sub(last_req / 1000);
                        let slack = 1000 + 100;

                        ensure!(
                            waited <= timeout_us + slack,
                            format!("C10|error-later-than-timeout|{name}"),
                            "{name}: the call failed with {err} {waited} us after the last state request; the transition timeout is {timeout_us} us"
                        );
                    }

                    let _ = t0;

                    // Sanity of the machinery (soft): all members accept promptly => the call works
                    // (a pass stops at the first member that is not there yet, so the worst case is
                    // one pass per outstanding status read, each pass costing one round trip per frame)
                    let passes: u64 = mem.iter().map(|i| case.esm[*i].iter().map(|e| if let Esm::Accept { after_polls } = e { u64::from(*after_polls) } else { 0 }).max().unwrap_or(0)).sum::<u64>() + 1;
                    let worst_us = passes * (mem.len().div_ceil(checks_per_frame.max(1)) as u64) * 5 * 2;

                    if !any_script && !mem.is_empty() && worst_us * 8 <= timeout_us {
                        fail!(format!("C10|healthy-transition-failed|{name}"), "{name} on group {group}: every member accepts state {req} within 5 status reads, but the call returned {err}");
                    }
                }
            }
            Rec::Cycle { forced, res, before, after } => {
                let out = match res {
                    Ok(o) => o,
                    Err(e) => fail!("C10|tx-rx-failed", "tx_rx on the healthy network failed: {e}"),
                };

                ensure!(out.states.len() == members.len(), "C10|state-list-length", "tx_rx reported {} states for a group of {} devices", out.states.len(), members.len());

                let mut reported: Vec<u8> = Vec::new();

                for (j, i) in members.iter().enumerate() {
                    let served = &net.devices[*i].stats.al_served[before.served[*i]..after.served[*i]];

                    ensure!(served.len() == 1, "C10|status-not-read-once", "during one tx_rx cycle the AL status of member {j} (device {i}) was read {} times", served.len());
                    ensure!(
                        out.states[j] == nib(served[0]),
                        "C10|state-list-differs",
                        "tx_rx: subdevice_states[{j}] = {:#x} but device {i} reported AL status {:#04x}",
                        out.states[j],
                        served[0]
                    );

                    reported.push(nib(served[0]));
                }

                let distinct: std::collections::BTreeSet<u8> = reported.iter().copied().collect();

                if *forced && distinct.len() >= 2 {
                    info.nontrivial = true;
                    info.label("cycle-mixed-states");
                }

                if reported.is_empty() {
                    continue;
                }

                // Summaries are asserted over the four operational states only; BOOT (3), "none"
                // and combination values are documented as ambiguous in the bitmap representation
                if !reported.iter().all(|s| matches!(s, 1 | 2 | 4 | 8)) {
                    info.label("cycle-with-boot-or-unknown-state");

                    continue;
                }

                info.label(if distinct.len() == 1 { "cycle-single-state" } else { "cycle-several-states" });

                let all = |s: u8| reported.iter().all(|r| *r == s);

                ensure!(out.all_op == all(8), "C10|all-op", "all_op() = {} but the devices reported {reported:x?}", out.all_op);

                let want_single = if distinct.len() == 1 { Some(reported[0]) } else { None };

                ensure!(out.single == want_single, "C10|single-state", "group_in_single_state() = {:?} but the devices reported {reported:x?}", out.single);

                for (k, s) in [1u8, 2, 4, 8].iter().enumerate() {
                    ensure!(out.is_in[k] == all(*s), "C10|is-in-state", "is_in_state({s}) = {} but the devices reported {reported:x?}", out.is_in[k]);
                }

                let _ = out.is_in_boot;
            }
            Rec::MdWait { req, ok, err, t0, t1, before, after } => {
                info.label(format!("md-wait-{}", if *ok { "ok" } else { "err" }));

                ensure!(
                    err != NEVER,
                    "C10|no-result-within-timeout|MainDevice::wait_for_state",
                    "MainDevice::wait_for_state({req}) had not returned {} us (virtual) after it was called; the transition timeout is {timeout_us} us",
                    t1 - t0
                );

                if *ok {
                    for i in 0..n {
                        let served = &net.devices[i].stats.al_served[before.served[i]..after.served[i]];

                        ensure!(
                            served.last().map(|v| v & 0x10) == Some(0),
                            "C10|wait-for-state-ok-but-device-signals-error",
                            "MainDevice::wait_for_state({req}) returned Ok, but device {i} reported AL status {:02x?} (error bit set)",
                            served.last()
                        );

                        ensure!(
                            served.last().map(|v| nib(*v)) == Some(*req),
                            "C10|wait-for-state-ok-but-device-not-in-state",
                            "MainDevice::wait_for_state({req}) returned Ok, but the last AL status device {i} reported was {:02x?}",
                            served.last()
                        );
                    }
                } else {
                    let waited = t1 - t0;

                    ensure!(
                        waited <= timeout_us + 1100,
                        "C10|error-later-than-timeout|MainDevice::wait_for_state",
                        "MainDevice::wait_for_state({req}) failed with {err} after {waited} us; the transition timeout is {timeout_us} us"
                    );

                    // all devices already report the state without error => must succeed
                    let all_there = (0..n).all(|i| net.devices[i].al_state == *req && !net.devices[i].al_error && after.ctl[i] == before.ctl[i]);
                    let stable = (0..n).all(|i| {
                        let served = &net.devices[i].stats.al_served[before.served[i]..after.served[i]];

                        served.iter().all(|v| *v == *req)
                    });

                    if all_there && stable {
                        fail!("C10|healthy-transition-failed|MainDevice::wait_for_state", "every device reports state {req} without error, but wait_for_state returned {err}");
                    }
                }
            }
        }
    }

    Ok(())
}
