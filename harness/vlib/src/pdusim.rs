//! Engine A1 — the PDU loop driven op by op on one thread under the virtual clock, with a
//! reference model of requests / slot ownership and a wire model.
//!
//! One interpreter serves C01 (routing, views, wake-ups), C03 (slot accounting), C05 (receive path
//! robustness) and the sequential part of C06 (deadlines, retries). Each failure is tagged with
//! the property it belongs to; a check binary only reports failures of its own property.

use crate::{
    core::{CaseInfo, Fail},
    storage::make_storage,
    util::{CountWaker, bytes_from_seed, hex, waker_of},
    vclock,
    wire::{self, Cmd, RefDatagram},
};
use ethercrab::{
    PduLoop, PduRx, PduTx, ReceiveAction,
    error::{Error, PduError, TimeoutError},
    verif,
};
use serde::{Deserialize, Serialize};
use std::{
    collections::BTreeSet,
    future::Future,
    pin::Pin,
    sync::Arc,
    task::{Context, Poll},
    time::Duration,
};

// ---------------------------------------------------------------------------------------------
// Case description
// ---------------------------------------------------------------------------------------------

#[derive(Serialize, Deserialize, Clone, Copy, Debug, PartialEq, Eq, Hash)]
pub enum Retry {
    None,
    Count(u8),
    Forever,
}

impl Retry {
    pub fn count(self) -> usize {
        match self {
            Retry::None => 0,
            Retry::Count(n) => usize::from(n),
            Retry::Forever => usize::MAX,
        }
    }
}

#[derive(Serialize, Deserialize, Clone, Debug, PartialEq, Eq, Hash)]
pub struct Config {
    pub slots: u8,
    pub frame_size: u16,
    pub retry: Retry,
    pub timeout_us: u32,
    pub pdu_idx0: u8,
}

#[derive(Serialize, Deserialize, Clone, Debug, PartialEq, Eq, Hash)]
pub struct PushSpec {
    pub cmd: Cmd,
    pub len: u16,
    pub seed: u8,
}

#[derive(Serialize, Deserialize, Clone, Copy, Debug, PartialEq, Eq, Hash)]
pub enum TxOutcome {
    Ok,
    Partial(u16),
    Err,
}

#[derive(Serialize, Deserialize, Clone, Debug, PartialEq, Eq, Hash)]
pub enum Mutation {
    Genuine,
    /// Deliver the genuine response twice.
    Duplicate,
    /// Replace the whole frame by `len` pseudo-random bytes.
    Garbage { len: u16, seed: u8 },
    /// Replace the whole frame by these bytes (byte-level fuzz driver).
    Raw { bytes: Vec<u8> },
    /// Arbitrary bytes after a valid Ethernet + EtherCAT header claiming `ecat_len`.
    GarbagePayload { len: u16, ecat_len: u16, seed: u8 },
    /// Add `delta` to the first datagram's index.
    WrongIndex { delta: u8 },
    /// Set the first datagram index to an absolute value.
    SetIndex { idx: u8 },
    /// Append bytes and enlarge the EtherCAT length field by the same amount.
    Oversize { extra: u16 },
    /// Cut the frame to `k` bytes (mapped onto 0..len).
    Truncated { k: u16 },
    /// The MainDevice's own transmission comes back (source MAC unchanged).
    EchoUnchanged,
    /// Source MAC set to an arbitrary other address.
    OtherSource { b: u8 },
    /// EtherType replaced.
    EtherType { v: u16 },
    /// EtherCAT header length field set to an arbitrary 11 bit value.
    EcatLen { v: u16 },
    /// EtherCAT type nibble changed.
    EcatType { v: u8 },
    /// First datagram command byte replaced.
    Command { v: u8 },
    /// First datagram length/flags word replaced.
    LenFlags { v: u16 },
    /// One byte anywhere XOR-ed.
    FlipByte { at: u16, x: u8 },
}

#[derive(Serialize, Deserialize, Clone, Debug, PartialEq, Eq, Hash)]
pub enum Op {
    /// Build and submit a request on `task` (skipped if the task still has one outstanding).
    Start {
        task: u8,
        pushes: Vec<PushSpec>,
        /// Read the response through the datagram iterator (keeps the frame) instead of
        /// `first_pdu`.
        iter_mode: bool,
    },
    /// Allocate a frame, push, and drop it without marking it sendable.
    CreateAndDrop { pushes: Vec<PushSpec> },
    /// Allocate a frame, push, and keep it (state: being built).
    CreateHold { pushes: Vec<PushSpec> },
    /// Drop the oldest frame kept by `CreateHold`.
    ReleaseCreated,
    /// The transmit side claims the next sendable frame and holds it without sending yet.
    TxClaim,
    /// The transmit side finishes the held frame.
    TxFinish { outcome: TxOutcome },
    Poll { task: u8 },
    DropFuture { task: u8 },
    /// Drop everything the task holds from completed requests (views, response frame).
    DropResult { task: u8 },
    TxStep { outcome: TxOutcome },
    /// Deliver (a mutation of) the response to wire frame `sel`.
    Deliver {
        sel: u16,
        mutation: Mutation,
        resp_seed: u8,
        wkc: u16,
    },
    /// The network loses wire frame `sel`.
    Lose { sel: u16 },
    Advance { us: u32 },
    /// Re-read the newest view of `task`, then shorten it from the front by `trim`.
    ReadView { task: u8, trim: u16 },
}

#[derive(Serialize, Deserialize, Clone, Debug, PartialEq, Eq, Hash)]
pub struct Phase {
    pub ops: Vec<Op>,
    /// Call `PduLoop::reset` after this phase's probe.
    pub reset_after: bool,
    /// With `reset_after`: instead of dropping the outstanding handles, leak them
    /// (`mem::forget`, as the crate's own tests do) so that `reset` has something to free.
    #[serde(default)]
    pub leak_before_reset: bool,
}

#[derive(Serialize, Deserialize, Clone, Debug, PartialEq, Eq, Hash)]
pub struct Case {
    pub config: Config,
    pub phases: Vec<Phase>,
    /// Drop views before their slot can be re-allocated (excludes the known view-aliasing
    /// finding by construction so that the search continues behind it).
    pub drop_views_before_reuse: bool,
    /// Allow deadline expiry / abandonment while the transmit side holds the frame (the C06
    /// window; excluded from every other property by its quantifier).
    #[serde(default)]
    pub allow_tx_window: bool,
    /// Additionally allow the request to be abandoned (future dropped / final expiry) while the
    /// transmit side holds the frame. Off = the known finding behind it is excluded by
    /// construction.
    #[serde(default)]
    pub allow_abandon_in_tx: bool,
}

pub const MAX_TASKS: usize = 4;

// ---------------------------------------------------------------------------------------------
// Model
// ---------------------------------------------------------------------------------------------

#[derive(Clone, Debug, PartialEq, Eq)]
enum RState {
    Queued,
    Sending,
    /// The deadline expired with retries left while the transmit side held the frame: the slot
    /// was marked sendable again under the transmit side (C06 window).
    SendingRetried,
    OnWire,
    Received,
    ReceivedMutated,
    /// The receive side claimed the slot and then rejected the frame (slot is stuck in RxBusy
    /// until the request times out or is dropped).
    RxStuck,
}

struct Req {
    id: u64,
    slot: u8,
    handles: Vec<verif::Handle>,
    dgs: Vec<RefDatagram>,
    expected_bytes: Vec<u8>,
    state: RState,
    deadline: u64,
    retries_left: usize,
    tx_count: u32,
    polled: bool,
    /// The deadline timer has been polled at least once since it was (re)created. The embassy
    /// timer only reports expiry from its second poll on.
    timer_armed: bool,
    waker: Arc<CountWaker>,
    resp_data: Vec<Vec<u8>>,
    resp_wkc: Vec<u16>,
    iter_mode: bool,
    /// Allocation sequence number (to detect out-of-order completion).
    alloc_seq: u64,
    /// Total number of datagram indices consumed before this request's first push.
    idx_at_start: u64,
    error_paths: BTreeSet<&'static str>,
}

struct WireFrame {
    req: u64,
    bytes: Vec<u8>,
}

struct HeldView<'a> {
    pdu: verif::ReceivedPdu<'a>,
    expect: Vec<u8>,
    slot: u8,
    /// The view keeps its slot busy (true once the tree makes views own their frame).
    holds_slot: bool,
    alloc_gen_at_capture: u64,
}

struct Task<'a> {
    fut: Option<Pin<Box<verif::RxFut<'a>>>>,
    req: Option<Req>,
    views: Vec<HeldView<'a>>,
    held_iter: Option<(Box<dyn Iterator<Item = Result<verif::ReceivedPdu<'a>, Error>> + 'a>, u8)>,
}

#[derive(Clone)]
struct Snap {
    state: u8,
    first_pdu: u16,
    buf: Vec<u8>,
}

/// Facts about the run used for the non-triviality rules of the individual properties.
#[derive(Default, Debug, Clone)]
pub struct Facts {
    pub out_of_order_completion: bool,
    pub slot_reused_while_view_held: bool,
    pub nonzero_trim: bool,
    pub max_outstanding: usize,
    pub two_error_paths_same_slot: bool,
    pub retransmissions: u64,
    pub timeouts: u64,
    pub rx_candidates: u64,
    pub rx_truncated_in_header: u64,
    pub rx_processed: u64,
    pub rx_rejected: u64,
    pub rx_ignored: u64,
    pub deliveries_mutated: u64,
    pub precedence_cases: u64,
    pub probes: u64,
    pub resets: u64,
    pub ops_executed: u64,
    pub ops_skipped: u64,
    pub known_view_alias_excluded: u64,
    pub matched_slot_touched_on_reject: u64,
    pub tx_window_events: u64,
    pub skipped_for_index_domain: u64,
    pub leaked_handles: u64,
    pub foreign_soft_failures: u64,
}

pub struct Sim<'a, 'b, 's> {
    cfg: Config,
    n: usize,
    frame_size: usize,
    tx: &'b mut PduTx<'s>,
    rx: &'b mut PduRx<'s>,
    pdu_loop: &'a PduLoop<'a>,
    tasks: Vec<Task<'a>>,
    held_created: Vec<(verif::Frame<'a>, u8, u64)>,
    held_sending: Option<(ethercrab::SendableFrame<'s>, usize, u64)>,
    allow_tx_window: bool,
    allow_abandon_in_tx: bool,
    /// Datagram indices consumed so far (every push attempt consumes one, also a refused one).
    idx_total: u64,
    last_idx_before: u64,
    /// Slot whose request was abandoned / expired for good while the transmit side holds it.
    orphan_tx: Option<u8>,
    wire: Vec<WireFrame>,
    next_req: u64,
    alloc_seq: u64,
    /// Per slot: how many times it has been allocated (to attribute view changes to reuse).
    slot_gen: Vec<u64>,
    slot_error_paths: Vec<BTreeSet<&'static str>>,
    tx_waker: Arc<CountWaker>,
    pub facts: Facts,
    drop_views_before_reuse: bool,
    /// The property this run is judged for.
    focus: String,
}

fn f(prop: &str, clause: &str, msg: String) -> Fail {
    Fail::new(format!("{prop}|{clause}"), msg)
}

macro_rules! bail {
    ($prop:expr, $clause:expr, $($fmt:tt)*) => {
        return Err(f($prop, $clause, format!($($fmt)*)))
    };
}

macro_rules! check {
    ($cond:expr, $prop:expr, $clause:expr, $($fmt:tt)*) => {
        if !($cond) {
            return Err(f($prop, $clause, format!($($fmt)*)));
        }
    };
}

/// A pure observation (no effect on the model): only fatal for the property it belongs to, so
/// that another property's run continues behind it.
macro_rules! soft_check {
    ($self:expr, $cond:expr, $prop:expr, $clause:expr, $($fmt:tt)*) => {
        if !($cond) {
            if $self.focus == $prop {
                return Err(f($prop, $clause, format!($($fmt)*)));
            } else {
                $self.facts.foreign_soft_failures += 1;
            }
        }
    };
}

const ST_NONE: u8 = 0;
const ST_SENDABLE: u8 = 2;
const ST_SENDING: u8 = 3;
const ST_SENT: u8 = 4;
const ST_RXBUSY: u8 = 5;
const ST_RXDONE: u8 = 6;
const ST_RXPROC: u8 = 7;

impl<'a, 'b, 's> Sim<'a, 'b, 's> {
    fn snap(&self, i: usize) -> Snap {
        let s = verif::slot(self.pdu_loop, i);

        Snap {
            state: s.state,
            first_pdu: s.first_pdu,
            buf: s.buffer.to_vec(),
        }
    }

    fn snap_all(&self) -> Vec<Snap> {
        (0..self.n).map(|i| self.snap(i)).collect()
    }

    fn live_reqs(&self) -> impl Iterator<Item = &Req> {
        self.tasks.iter().filter_map(|t| t.req.as_ref())
    }

    fn held_slots(&self) -> BTreeSet<u8> {
        let mut s = BTreeSet::new();

        for (_, slot, _) in &self.held_created {
            s.insert(*slot);
        }

        if let Some(slot) = self.orphan_tx {
            s.insert(slot);
        }

        for t in &self.tasks {
            if let Some(r) = &t.req {
                s.insert(r.slot);
            }

            if let Some((_, slot)) = &t.held_iter {
                s.insert(*slot);
            }

            for v in &t.views {
                if v.holds_slot {
                    s.insert(v.slot);
                }
            }
        }

        s
    }

    /// Number of things a caller holds that the property counts as "live request or response".
    fn held_things(&self) -> usize {
        self.held_created.len()
            + self
                .tasks
                .iter()
                .map(|t| usize::from(t.req.is_some()) + usize::from(t.held_iter.is_some()) + t.views.len())
                .sum::<usize>()
    }

    /// Invariants checked after every op.
    fn invariants(&mut self, after: &str) -> Result<(), Fail> {
        let held = self.held_slots();

        for i in 0..self.n {
            let s = verif::slot(self.pdu_loop, i);

            if s.state != ST_NONE && !held.contains(&(i as u8)) {
                bail!(
                    "C03",
                    "slot-leak",
                    "after {after}: slot {i} is in state {} but no live request, response or view owns it",
                    s.state
                );
            }
        }

        for t in &self.tasks {
            if let Some(r) = &t.req {
                let s = verif::slot(self.pdu_loop, usize::from(r.slot));

                let want = match r.state {
                    RState::Queued => ST_SENDABLE,
                    RState::Sending => ST_SENDING,
                    RState::SendingRetried => ST_SENDABLE,
                    RState::OnWire => ST_SENT,
                    RState::Received | RState::ReceivedMutated => ST_RXDONE,
                    RState::RxStuck => ST_RXBUSY,
                };

                check!(
                    s.state == want,
                    "C02",
                    "state-mismatch",
                    "after {after}: request {} in model state {:?} but its slot {} is in state {} (expected {want})",
                    r.id,
                    r.state,
                    r.slot,
                    s.state
                );
            }
        }

        self.check_views(after)?;

        let out = self.live_reqs().count();

        if out > self.facts.max_outstanding {
            self.facts.max_outstanding = out;
        }

        Ok(())
    }

    fn check_views(&mut self, after: &str) -> Result<(), Fail> {
        for t in &self.tasks {
            for v in &t.views {
                let now: &[u8] = &v.pdu;

                if now != v.expect.as_slice() {
                    let reused = self.slot_gen[usize::from(v.slot)] != v.alloc_gen_at_capture;

                    let at = now
                        .iter()
                        .zip(v.expect.iter())
                        .position(|(a, b)| a != b)
                        .unwrap_or(0);

                    if reused {
                        bail!(
                            "C01",
                            "view-changed-after-slot-reuse",
                            "after {after}: a held response view (slot {}) changed at byte {at} once its slot was given to a new request: now {} expected {}",
                            v.slot,
                            hex(now),
                            hex(&v.expect)
                        );
                    } else {
                        bail!(
                            "C01",
                            "view-changed",
                            "after {after}: a held response view (slot {}) changed at byte {at}: now {} expected {}",
                            v.slot,
                            hex(now),
                            hex(&v.expect)
                        );
                    }
                }
            }
        }

        Ok(())
    }

    fn build_frame(
        &mut self,
        pushes: &[PushSpec],
        salt: u64,
    ) -> Result<Option<(verif::Frame<'a>, Vec<verif::Handle>, Vec<RefDatagram>)>, Fail> {
        // Quantifier: fewer than 256 datagram indices are allocated while a request is
        // outstanding (the wire index has 8 bits). Skip an op that would leave the domain.
        if self
            .live_reqs()
            .map(|r| r.idx_at_start)
            .chain(self.held_created.iter().map(|h| h.2))
            .any(|start| self.idx_total + pushes.len() as u64 - start >= 256)
        {
            self.facts.ops_skipped += 1;
            self.facts.skipped_for_index_domain += 1;

            return Ok(None);
        }

        let held_before = self.held_slots();
        let things_before = self.held_things();
        let idx_before = self.idx_total;

        if self.drop_views_before_reuse {
            // Exclude the known aliasing finding by construction: let go of views that do not own
            // their slot before any slot can be handed out again.
            for t in &mut self.tasks {
                let before = t.views.len();

                t.views.retain(|v| v.holds_slot);

                self.facts.known_view_alias_excluded += (before - t.views.len()) as u64;
            }
        }

        let frame = match verif::alloc_frame(self.pdu_loop) {
            Ok(fr) => fr,
            Err(Error::Pdu(PduError::SwapState)) => {
                check!(
                    things_before >= self.n,
                    "C03",
                    "alloc-failed-with-free-slot",
                    "allocation failed although only {things_before} requests/responses are held and the storage has {} slots",
                    self.n
                );

                return Ok(None);
            }
            Err(e) => bail!("C03", "alloc-wrong-error", "allocation failed with {e:?}"),
        };

        let slot = frame.storage_slot_index();

        check!(
            usize::from(slot) < self.n,
            "C02",
            "slot-out-of-range",
            "allocated slot index {slot} >= {}",
            self.n
        );

        if self.orphan_tx == Some(slot) {
            bail!(
                "C06",
                "abandon-during-tx|slot-reallocated-under-tx",
                "slot {slot} was handed to a new request while the transmit side is still inside it (its previous request was abandoned / timed out during transmission)"
            );
        }

        check!(
            !held_before.contains(&slot),
            "C02",
            "slot-given-twice",
            "slot {slot} was handed to a new request while a live request/response still owns it"
        );

        // Views that do not own their slot: note reuse
        for t in &self.tasks {
            for v in &t.views {
                if v.slot == slot {
                    self.facts.slot_reused_while_view_held = true;
                }
            }
        }

        self.slot_gen[usize::from(slot)] += 1;

        let mut frame = frame;
        let cap = self.frame_size - 16;
        let mut consumed = 0usize;
        let mut handles = Vec::new();
        let mut dgs = Vec::new();

        for (i, p) in pushes.iter().enumerate() {
            let payload = bytes_from_seed(u64::from(p.seed) ^ salt.wrapping_mul(31) ^ (i as u64) << 8, usize::from(p.len));
            let alloc = payload.len() + 12;
            let fits = consumed + alloc <= cap;

            match (fits, frame.push_pdu(p.cmd.to_ethercrab(), &payload, None)) {
                (true, Ok(h)) => {
                    dgs.push(RefDatagram {
                        code: p.cmd.code(),
                        idx: h.pdu_idx,
                        addr: p.cmd.addr_bytes(),
                        len: payload.len() as u16,
                        data: payload,
                    });
                    handles.push(h);
                    consumed += alloc;
                }
                (false, Err(PduError::TooLong)) => {}
                (fits, r) => bail!(
                    "C04",
                    "push-contract",
                    "push of {alloc} bytes with {consumed}/{cap} used: fits={fits} but result {r:?}"
                ),
            }
        }

        self.idx_total += pushes.len() as u64;
        self.last_idx_before = idx_before;

        Ok(Some((frame, handles, dgs)))
    }

    fn op_start(&mut self, task: usize, pushes: &[PushSpec], iter_mode: bool) -> Result<(), Fail> {
        if self.tasks[task].req.is_some() {
            self.facts.ops_skipped += 1;

            return Ok(());
        }

        // Starting a new request lets go of the response frame kept from the previous one
        self.tasks[task].held_iter = None;

        let salt = self.next_req;

        let Some((frame, handles, dgs)) = self.build_frame(pushes, salt)? else {
            return Ok(());
        };

        let slot = frame.storage_slot_index();

        if dgs.is_empty() {
            drop(frame);

            check!(
                verif::slot(self.pdu_loop, usize::from(slot)).state == ST_NONE,
                "C03",
                "created-drop-leak",
                "dropping a frame that was never marked sendable did not release slot {slot}"
            );

            self.slot_error_paths[usize::from(slot)].insert("created-drop");

            return Ok(());
        }

        let fut = frame.mark_sendable(
            self.pdu_loop,
            Duration::from_micros(u64::from(self.cfg.timeout_us)),
            self.cfg.retry.count(),
        );

        verif::wake_sender(self.pdu_loop);

        let id = self.next_req;
        self.next_req += 1;
        self.alloc_seq += 1;

        let expected_bytes = wire::encode_frame(&dgs);

        self.tasks[task].fut = Some(Box::pin(fut));
        self.tasks[task].req = Some(Req {
            id,
            slot,
            handles,
            dgs,
            expected_bytes,
            state: RState::Queued,
            deadline: vclock::now() + u64::from(self.cfg.timeout_us),
            retries_left: self.cfg.retry.count(),
            tx_count: 0,
            polled: false,
            timer_armed: false,
            waker: CountWaker::new(),
            resp_data: Vec::new(),
            resp_wkc: Vec::new(),
            iter_mode,
            alloc_seq: self.alloc_seq,
            idx_at_start: self.last_idx_before,
            error_paths: BTreeSet::new(),
        });

        Ok(())
    }

    fn op_create_and_drop(&mut self, pushes: &[PushSpec]) -> Result<(), Fail> {
        let salt = self.next_req ^ 0xdead;

        let Some((frame, _h, _d)) = self.build_frame(pushes, salt)? else {
            return Ok(());
        };

        let slot = frame.storage_slot_index();

        drop(frame);

        check!(
            verif::slot(self.pdu_loop, usize::from(slot)).state == ST_NONE,
            "C03",
            "created-drop-leak",
            "dropping a frame that was never marked sendable did not release slot {slot}"
        );

        self.slot_error_paths[usize::from(slot)].insert("created-drop");

        Ok(())
    }

    fn finish_req(&mut self, task: usize, path: &'static str) {
        if let Some(r) = self.tasks[task].req.take() {
            let sp = &mut self.slot_error_paths[usize::from(r.slot)];

            for p in r.error_paths.iter() {
                sp.insert(p);
            }

            if path != "ok" {
                sp.insert(path);
            }

            if sp.len() >= 2 {
                self.facts.two_error_paths_same_slot = true;
            }
        }

        self.tasks[task].fut = None;
    }

    fn op_poll(&mut self, task: usize) -> Result<(), Fail> {
        if self.tasks[task].fut.is_none() {
            self.facts.ops_skipped += 1;

            return Ok(());
        }

        let now = vclock::now();
        let timeout = u64::from(self.cfg.timeout_us);

        {
            let r = self.tasks[task].req.as_ref().unwrap();

            if matches!(r.state, RState::Sending | RState::SendingRetried)
                && now >= r.deadline
                && r.timer_armed
                && (!self.allow_tx_window || (r.retries_left == 0 && !self.allow_abandon_in_tx))
            {
                // Expiry while the transmit side is inside the buffer: C06 window only
                self.facts.ops_skipped += 1;

                return Ok(());
            }
        }

        let (waker, state, deadline, retries_left, id, slot, timer_armed) = {
            let r = self.tasks[task].req.as_ref().unwrap();

            (r.waker.clone(), r.state.clone(), r.deadline, r.retries_left, r.id, r.slot, r.timer_armed)
        };

        // An expired deadline is only noticed by a timer that has been polled before
        let expired = now >= deadline && timer_armed;

        // The transmit task registers its waker every time it runs
        self.tx.replace_waker(&waker_of(&self.tx_waker));

        let w = waker_of(&waker);
        let mut cx = Context::from_waker(&w);

        self.tx_waker.take();

        let res = self.tasks[task].fut.as_mut().unwrap().as_mut().poll(&mut cx);

        {
            let r = self.tasks[task].req.as_mut().unwrap();

            r.polled = true;

            if !matches!(state, RState::Received | RState::ReceivedMutated) {
                r.timer_armed = true;
            }
        }

        match state {
            RState::Received | RState::ReceivedMutated => {
                if expired {
                    self.facts.precedence_cases += 1;
                }

                let frame = match res {
                    Poll::Ready(Ok(fr)) => fr,
                    Poll::Ready(Err(e)) => {
                        if now >= deadline {
                            bail!(
                                "C06",
                                "received-response-lost-to-deadline",
                                "request {id}: response was already received when the deadline was examined, but the future resolved to {e:?}"
                            );
                        }

                        bail!(
                            "C01",
                            "received-but-error",
                            "request {id}: response was delivered but the future resolved to {e:?}"
                        );
                    }
                    Poll::Pending => bail!(
                        "C01",
                        "received-but-pending",
                        "request {id}: response was delivered (slot {slot}) but the future is still pending"
                    ),
                };

                if state == RState::ReceivedMutated {
                    // The network returned something that is not the genuine response. Only
                    // memory safety of the view is judged.
                    let h0 = self.tasks[task].req.as_ref().unwrap().handles[0];
                    let range = {
                        let s = verif::slot(self.pdu_loop, usize::from(slot));
                        let start = s.buffer.as_ptr() as usize;

                        start..start + s.buffer.len()
                    };

                    if let Ok(pdu) = frame.first_pdu(h0) {
                        let p = pdu.as_ptr() as usize;

                        check!(
                            p >= range.start && p + pdu.len() <= range.end,
                            "C01",
                            "view-outside-slot",
                            "view of a mutated response reaches outside its slot buffer"
                        );
                    }

                    self.finish_req(task, "mutated-response");

                    return Ok(());
                }

                // Out-of-order completion?
                let my_seq = self.tasks[task].req.as_ref().unwrap().alloc_seq;

                if self.live_reqs().any(|o| o.alloc_seq < my_seq) {
                    self.facts.out_of_order_completion = true;
                }

                let r = self.tasks[task].req.as_ref().unwrap();
                let (handles, resp_data, resp_wkc, iter_mode) = (
                    r.handles.clone(),
                    r.resp_data.clone(),
                    r.resp_wkc.clone(),
                    r.iter_mode,
                );

                if iter_mode {
                    let mut it: Box<dyn Iterator<Item = Result<verif::ReceivedPdu<'a>, Error>> + 'a> =
                        Box::new(frame.into_pdu_iter());
                    let mut n = 0usize;

                    for item in it.by_ref() {
                        let pdu = match item {
                            Ok(p) => p,
                            Err(e) => bail!("C01", "iter-error", "request {id}: datagram {n} of the response: {e:?}"),
                        };

                        check!(n < resp_data.len(), "C01", "iter-too-many", "request {id}: response iterator yields more than the {} datagrams sent", resp_data.len());
                        check!(
                            &pdu[..] == resp_data[n].as_slice() && pdu.len() == resp_data[n].len(),
                            "C01",
                            "wrong-data",
                            "request {id} datagram {n}: got {} expected {}",
                            hex(&pdu),
                            hex(&resp_data[n])
                        );
                        check!(
                            verif::pdu_wkc(&pdu) == resp_wkc[n],
                            "C01",
                            "wrong-wkc",
                            "request {id} datagram {n}: working counter {} expected {}",
                            verif::pdu_wkc(&pdu),
                            resp_wkc[n]
                        );

                        n += 1;
                    }

                    check!(n == resp_data.len(), "C01", "iter-too-few", "request {id}: response iterator yielded {n} of {} datagrams", resp_data.len());

                    self.finish_req(task, "ok");
                    self.tasks[task].held_iter = Some((it, slot));
                } else {
                    let pdu = match frame.first_pdu(handles[0]) {
                        Ok(p) => p,
                        Err(e) => bail!("C01", "first-pdu-error", "request {id}: genuine response rejected: {e:?}"),
                    };

                    check!(
                        pdu.len() == resp_data[0].len() && &pdu[..] == resp_data[0].as_slice(),
                        "C01",
                        "wrong-data",
                        "request {id}: got {} expected {}",
                        hex(&pdu),
                        hex(&resp_data[0])
                    );
                    check!(
                        verif::pdu_wkc(&pdu) == resp_wkc[0],
                        "C01",
                        "wrong-wkc",
                        "request {id}: working counter {} expected {}",
                        verif::pdu_wkc(&pdu),
                        resp_wkc[0]
                    );

                    let st = verif::slot(self.pdu_loop, usize::from(slot)).state;
                    let holds_slot = st == ST_RXPROC;

                    self.finish_req(task, "ok");

                    let alloc_gen = self.slot_gen[usize::from(slot)];

                    self.tasks[task].views.push(HeldView {
                        pdu,
                        expect: resp_data[0].clone(),
                        slot,
                        holds_slot,
                        alloc_gen_at_capture: alloc_gen,
                    });

                    if self.tasks[task].views.len() > 3 {
                        self.tasks[task].views.remove(0);
                    }
                }
            }
            RState::Queued | RState::Sending | RState::SendingRetried | RState::OnWire | RState::RxStuck => {
                if expired {
                    if retries_left == 0 {
                        match res {
                            Poll::Ready(Err(Error::Timeout(TimeoutError::Pdu))) => {}
                            Poll::Ready(Ok(_)) => bail!("C06", "timeout-resolved-ok", "request {id}: no response was received but the future resolved to Ok"),
                            Poll::Ready(Err(e)) => bail!("C06", "timeout-wrong-error", "request {id}: expected Timeout(Pdu), got {e:?}"),
                            Poll::Pending => bail!(
                                "C06",
                                "timeout-not-reported",
                                "request {id}: deadline {deadline} passed at {now} with no retries left after {} transmissions, but the future is still pending",
                                self.tasks[task].req.as_ref().unwrap().tx_count
                            ),
                        }

                        self.facts.timeouts += 1;

                        if matches!(state, RState::Sending | RState::SendingRetried) {
                            self.orphan_tx = Some(slot);
                            self.facts.tx_window_events += 1;
                        }

                        // Count clause: every transmission opportunity was taken?
                        self.finish_req(task, "timeout");

                        check!(
                            self.orphan_tx == Some(slot) || verif::slot(self.pdu_loop, usize::from(slot)).state == ST_NONE,
                            "C03",
                            "timeout-leak",
                            "request {id} timed out but slot {slot} was not released"
                        );
                    } else {
                        match res {
                            Poll::Pending => {}
                            Poll::Ready(r) => bail!(
                                "C06",
                                "retry-resolved-early",
                                "request {id}: deadline passed with {retries_left} retries left but the future resolved to {:?}",
                                r.map(|_| ())
                            ),
                        }

                        soft_check!(self, 
                            self.tx_waker.count() > 0,
                            "C06",
                            "tx-not-woken-on-retry",
                            "request {id}: marked for retransmission but the transmit task was not woken"
                        );

                        let r = self.tasks[task].req.as_mut().unwrap();

                        if r.retries_left != usize::MAX {
                            r.retries_left -= 1;
                        } else {
                            // usize::MAX - 1 in the implementation: indistinguishable within any
                            // bounded observation
                        }

                        r.deadline = now + timeout;
                        // Only a frame that is waiting for its response is re-queued; in every other
                        // state (not transmitted yet, being transmitted, claimed by the receive
                        // side) the retry just re-arms the deadline.
                        r.state = match &state {
                            RState::OnWire => RState::Queued,
                            other => other.clone(),
                        };
                        r.error_paths.insert("retry");

                        let d = r.deadline;
                        let want_state = if r.state == RState::SendingRetried { "sendable (under the transmit side)" } else { "sendable" };
                        let st_now = verif::slot(self.pdu_loop, usize::from(slot)).state;

                        check!(
                            st_now == ST_SENDABLE || state != RState::OnWire,
                            "C06",
                            "retry-not-requeued",
                            "request {id}: deadline expired with retries left but the frame was not made {want_state} again (slot state {st_now}); it will never be retransmitted"
                        );

                        let armed = vclock::handle().lock().unwrap().wakes.iter().any(|(t, _)| *t == d);

                        soft_check!(self, 
                            armed,
                            "C06",
                            "timer-not-rearmed",
                            "request {id}: retry scheduled but no wake-up is registered for the new deadline {d}"
                        );
                    }
                } else {
                    match res {
                        Poll::Pending => {}
                        Poll::Ready(Ok(_)) => bail!("C01", "completed-without-response", "request {id}: no response delivered, deadline not reached, but the future resolved to Ok"),
                        Poll::Ready(Err(e)) => bail!("C06", "early-error", "request {id}: no response delivered, deadline {deadline} not reached at {now}, but the future resolved to {e:?}"),
                    }

                    let armed = now >= deadline || vclock::handle().lock().unwrap().wakes.iter().any(|(t, _)| *t == deadline);

                    soft_check!(self, 
                        armed,
                        "C06",
                        "timer-not-armed",
                        "request {id}: pending but no wake-up is registered for its deadline {deadline}"
                    );
                }
            }
        }

        Ok(())
    }

    fn op_drop_future(&mut self, task: usize) -> Result<(), Fail> {
        if self.tasks[task].fut.is_none() {
            self.facts.ops_skipped += 1;

            return Ok(());
        }

        let slot = self.tasks[task].req.as_ref().unwrap().slot;

        let in_tx = matches!(self.tasks[task].req.as_ref().unwrap().state, RState::Sending | RState::SendingRetried);

        if in_tx && !(self.allow_tx_window && self.allow_abandon_in_tx) {
            self.facts.ops_skipped += 1;

            return Ok(());
        }

        if in_tx {
            self.orphan_tx = Some(slot);
            self.facts.tx_window_events += 1;
        }

        self.tasks[task].fut = None;
        self.finish_req(task, "future-dropped");

        check!(
            in_tx || verif::slot(self.pdu_loop, usize::from(slot)).state == ST_NONE,
            "C03",
            "future-drop-leak",
            "dropping the response future did not release slot {slot}"
        );

        Ok(())
    }

    fn op_drop_result(&mut self, task: usize) -> Result<(), Fail> {
        let t = &mut self.tasks[task];

        if t.views.is_empty() && t.held_iter.is_none() {
            self.facts.ops_skipped += 1;
        }

        t.views.clear();
        t.held_iter = None;

        Ok(())
    }

    fn op_create_hold(&mut self, pushes: &[PushSpec]) -> Result<(), Fail> {
        if self.held_created.len() >= 2 {
            self.facts.ops_skipped += 1;

            return Ok(());
        }

        let salt = self.next_req ^ 0xbeef;

        let Some((frame, _h, _d)) = self.build_frame(pushes, salt)? else {
            return Ok(());
        };

        let slot = frame.storage_slot_index();

        self.held_created.push((frame, slot, self.last_idx_before));

        Ok(())
    }

    fn op_release_created(&mut self) -> Result<(), Fail> {
        if self.held_created.is_empty() {
            self.facts.ops_skipped += 1;

            return Ok(());
        }

        let (frame, slot, _) = self.held_created.remove(0);

        drop(frame);

        check!(
            verif::slot(self.pdu_loop, usize::from(slot)).state == ST_NONE,
            "C03",
            "created-drop-leak",
            "dropping a frame that was never marked sendable did not release slot {slot}"
        );

        self.slot_error_paths[usize::from(slot)].insert("created-drop");

        Ok(())
    }

    fn op_tx(&mut self, outcome: TxOutcome) -> Result<(), Fail> {
        if self.held_sending.is_some() {
            return self.op_tx_finish(outcome);
        }

        self.op_tx_claim()?;

        if self.held_sending.is_some() {
            self.op_tx_finish(outcome)?;
        }

        Ok(())
    }

    fn op_tx_claim(&mut self) -> Result<(), Fail> {
        if self.held_sending.is_some() {
            self.facts.ops_skipped += 1;

            return Ok(());
        }

        // Expected: the queued request in the lowest slot
        let expect: Option<(usize, u8)> = self
            .tasks
            .iter()
            .enumerate()
            .filter_map(|(ti, t)| t.req.as_ref().filter(|r| r.state == RState::Queued).map(|r| (ti, r.slot)))
            .min_by_key(|(_, s)| *s);

        let sendable = self.tx.next_sendable_frame();

        let (ti, slot) = match (expect, sendable.is_some()) {
            (None, false) => {
                self.facts.ops_skipped += 1;

                return Ok(());
            }
            (None, true) => {
                let which = (0..self.n).find(|i| verif::slot(self.pdu_loop, *i).state == ST_SENDING);

                bail!("C02", "tx-claimed-unexpected", "the transmit side was offered slot {which:?} although no request is waiting to be sent");
            }
            (Some((_, slot)), false) => bail!("C06", "sendable-not-offered", "request in slot {slot} is waiting to be sent but the transmit side finds nothing"),
            (Some(x), true) => x,
        };

        check!(
            verif::slot(self.pdu_loop, usize::from(slot)).state == ST_SENDING,
            "C02",
            "tx-wrong-slot",
            "transmit side claimed a slot other than {slot}"
        );

        let r = self.tasks[ti].req.as_mut().unwrap();

        r.state = RState::Sending;

        let id = r.id;

        self.held_sending = Some((sendable.unwrap(), ti, id));

        Ok(())
    }

    fn op_tx_finish(&mut self, outcome: TxOutcome) -> Result<(), Fail> {
        let Some((sendable, ti, id)) = self.held_sending.take() else {
            self.facts.ops_skipped += 1;

            return Ok(());
        };

        let mut seen: Vec<u8> = Vec::new();
        let len = sendable.len();

        let res = sendable.send_blocking(|b| {
            seen = b.to_vec();

            match outcome {
                TxOutcome::Ok => Ok(b.len()),
                TxOutcome::Partial(k) => Ok(usize::from(k) % b.len()),
                TxOutcome::Err => Err(Error::SendFrame),
            }
        });

        // The request may have expired / been abandoned while the transmit side held the frame
        // (only generated for C06).
        let owner_alive = self.tasks[ti]
            .req
            .as_ref()
            .map(|r| r.id == id && matches!(r.state, RState::Sending | RState::SendingRetried))
            .unwrap_or(false);

        if !owner_alive {
            let slot = self.orphan_tx.take();

            if let Some(slot) = slot {
                let st = verif::slot(self.pdu_loop, usize::from(slot)).state;

                check!(
                    st == ST_NONE,
                    "C06",
                    "abandon-during-tx|slot-lost",
                    "the request in slot {slot} was abandoned / timed out while the transmit side held the frame; after the transmit side finished ({res:?}) the slot is left in state {st} with no owner and can never be allocated again"
                );
            }

            return Ok(());
        }

        if self.tasks[ti].req.as_ref().unwrap().state == RState::SendingRetried {
            self.facts.tx_window_events += 1;
        }

        let r = self.tasks[ti].req.as_mut().unwrap();

        if seen != r.expected_bytes {
            let at = seen.iter().zip(r.expected_bytes.iter()).position(|(a, b)| a != b).unwrap_or(0);

            if r.tx_count == 0 {
                bail!(
                    "C04",
                    "frame-differs",
                    "request {}: first transmission differs from the reference encoding at byte {at}: sent {} expected {}",
                    r.id,
                    hex(&seen),
                    hex(&r.expected_bytes)
                );
            } else {
                bail!(
                    "C06",
                    "retransmit-differs",
                    "request {}: transmission #{} differs from the first one at byte {at}: sent {} expected {}",
                    r.id,
                    r.tx_count + 1,
                    hex(&seen),
                    hex(&r.expected_bytes)
                );
            }
        }

        check!(seen.len() == len, "C04", "len-mismatch", "SendableFrame::len() != bytes handed to the closure");

        match outcome {
            TxOutcome::Ok => {
                check!(res.is_ok(), "C06", "send-ok-reported-error", "complete send reported {res:?}");

                if r.tx_count > 0 {
                    self.facts.retransmissions += 1;
                }

                r.tx_count += 1;
                r.state = RState::OnWire;

                let id = r.id;

                self.wire.push(WireFrame { req: id, bytes: seen });

                if self.wire.len() > 12 {
                    self.wire.remove(0);
                }
            }
            TxOutcome::Partial(_) => {
                check!(
                    matches!(res, Err(Error::PartialSend { .. })),
                    "C06",
                    "partial-send-not-reported",
                    "partial send reported {res:?}"
                );

                r.state = RState::Queued;
                r.error_paths.insert("partial-send");
            }
            TxOutcome::Err => {
                check!(matches!(res, Err(Error::SendFrame)), "C06", "send-error-not-propagated", "failed send reported {res:?}");

                r.state = RState::Queued;
                r.error_paths.insert("send-error");
            }
        }

        Ok(())
    }

    fn mutate(&self, genuine: &[u8], m: &Mutation) -> Vec<u8> {
        let mut b = genuine.to_vec();

        match *m {
            Mutation::Genuine | Mutation::Duplicate => {}
            Mutation::Garbage { len, seed } => {
                b = bytes_from_seed(u64::from(seed) + 77, usize::from(len) % 1601);
            }
            Mutation::Raw { ref bytes } => {
                b = bytes.clone();
            }
            Mutation::GarbagePayload { len, ecat_len, seed } => {
                let mut g = Vec::new();

                g.extend_from_slice(&wire::BROADCAST_MAC);
                g.extend_from_slice(&wire::REPLY_MAC);
                g.extend_from_slice(&wire::ETHERTYPE);
                g.extend_from_slice(&((ecat_len & 0x7ff) | 0x1000).to_le_bytes());
                g.extend_from_slice(&bytes_from_seed(u64::from(seed) + 99, usize::from(len) % 1585));

                b = g;
            }
            Mutation::WrongIndex { delta } => {
                if b.len() > 17 {
                    b[17] = b[17].wrapping_add(delta.max(1));
                }
            }
            Mutation::SetIndex { idx } => {
                if b.len() > 17 {
                    b[17] = idx;
                }
            }
            Mutation::Oversize { extra } => {
                let extra = usize::from(extra % 1600) + 1;
                let l = (usize::from(u16::from_le_bytes([b[14], b[15]]) & 0x7ff) + extra).min(0x7ff) as u16;

                b[14..16].copy_from_slice(&(l | 0x1000).to_le_bytes());
                b.extend(bytes_from_seed(5, extra));
            }
            Mutation::Truncated { k } => {
                let k = crate::core::idx(k, b.len());

                b.truncate(k);
            }
            Mutation::EchoUnchanged => {
                b[6..12].copy_from_slice(&wire::MASTER_MAC);
            }
            Mutation::OtherSource { b: x } => {
                b[6] = x;
            }
            Mutation::EtherType { v } => {
                b[12..14].copy_from_slice(&v.to_be_bytes());
            }
            Mutation::EcatLen { v } => {
                let t = u16::from_le_bytes([b[14], b[15]]) & 0xf800;

                b[14..16].copy_from_slice(&(t | (v & 0x7ff)).to_le_bytes());
            }
            Mutation::EcatType { v } => {
                let l = u16::from_le_bytes([b[14], b[15]]) & 0x0fff;

                b[14..16].copy_from_slice(&(l | (u16::from(v & 0xf) << 12)).to_le_bytes());
            }
            Mutation::Command { v } => {
                if b.len() > 16 {
                    b[16] = v;
                }
            }
            Mutation::LenFlags { v } => {
                if b.len() > 23 {
                    b[22..24].copy_from_slice(&v.to_le_bytes());
                }
            }
            Mutation::FlipByte { at, x } => {
                let i = crate::core::idx(at, b.len());

                if !b.is_empty() {
                    b[i] ^= x.max(1);
                }
            }
        }

        b
    }

    /// Deliver arbitrary bytes to the receive side and judge the outcome (C05 oracle + routing).
    ///
    /// `genuine_for` = the request id these bytes are the unmodified response for, if any, with
    /// the response content.
    fn deliver_bytes(
        &mut self,
        bytes: &[u8],
        genuine_for: Option<(u64, Vec<Vec<u8>>, Vec<u16>)>,
    ) -> Result<(), Fail> {
        let before = self.snap_all();

        // Classification from the bytes alone (independent of the implementation)
        let passes_filter = bytes.len() >= 14 && bytes[12..14] == wire::ETHERTYPE && bytes[6..12] != wire::MASTER_MAC;
        let first_idx = if passes_filter && bytes.len() > 17 { Some(bytes[17]) } else { None };

        // X = the live request awaiting a response (sent, not yet received) whose first datagram
        // index is the frame's.
        let x: Option<(usize, u8, u64)> = first_idx.and_then(|idx| {
            self.tasks.iter().enumerate().find_map(|(ti, t)| {
                t.req
                    .as_ref()
                    .filter(|r| r.state == RState::OnWire && r.dgs[0].idx == idx)
                    .map(|r| (ti, r.slot, r.id))
            })
        });

        if let Some(idx) = first_idx {
            if before.iter().any(|s| s.first_pdu == u16::from(idx)) {
                self.facts.rx_candidates += 1;
            }
        }

        if passes_filter && bytes.len() < 16 + 10 {
            self.facts.rx_truncated_in_header += 1;
        }

        for r in self.live_reqs() {
            r.waker.take();
        }

        let res = match crate::core::catch(|| self.rx.receive_frame(bytes)) {
            Ok(r) => r,
            Err(p) => bail!("C05", &format!("rx-panic|{}", crate::core::panic_site(&p)), "receive_frame panicked on {}: {p}", hex(bytes)),
        };

        let after = self.snap_all();

        let changed: Vec<usize> = (0..self.n)
            .filter(|i| {
                before[*i].state != after[*i].state || before[*i].first_pdu != after[*i].first_pdu || before[*i].buf != after[*i].buf
            })
            .collect();

        if !passes_filter {
            check!(
                bytes.len() < 14 || res == Ok(ReceiveAction::Ignored),
                "C05",
                "stranger-not-ignored",
                "a non-EtherCAT frame / own transmission was not ignored: {res:?}"
            );
            check!(changed.is_empty(), "C05", "stranger-altered-slot", "a non-EtherCAT frame / own transmission changed slots {changed:?}");

            self.facts.rx_ignored += 1;

            return Ok(());
        }

        match (x, &res) {
            (None, Ok(ReceiveAction::Processed)) => bail!(
                "C05",
                "accepted-without-request",
                "a frame with first index {first_idx:?} matching no request awaiting a response was accepted (changed slots {changed:?})"
            ),
            (None, _) => {
                check!(
                    changed.is_empty(),
                    "C05",
                    "rejected-frame-altered-slot",
                    "a frame matching no awaiting request ({res:?}) changed slots {changed:?}"
                );

                if let Some((id, _, _)) = genuine_for {
                    // Genuine response to a request that is currently not awaiting one: fine
                    // unless the request IS on the wire (then x would be Some).
                    let _ = id;
                }

                match res {
                    Ok(_) => self.facts.rx_ignored += 1,
                    Err(_) => self.facts.rx_rejected += 1,
                }
            }
            (Some((ti, slot, id)), Ok(ReceiveAction::Processed)) => {
                check!(
                    changed.iter().all(|c| *c == usize::from(slot)),
                    "C05",
                    "other-slot-altered",
                    "accepting a response for slot {slot} changed slots {changed:?}"
                );

                let s = &after[usize::from(slot)];

                check!(s.state == ST_RXDONE, "C02", "accepted-not-rxdone", "accepted response left slot {slot} in state {}", s.state);

                let ecat_len = usize::from(u16::from_le_bytes([bytes[14], bytes[15]]) & 0x7ff);

                check!(
                    bytes.len() >= 16 + ecat_len && s.buf.len() >= 16 + ecat_len && s.buf[16..16 + ecat_len] == bytes[16..16 + ecat_len],
                    "C01",
                    "stored-response-differs",
                    "slot {slot} does not contain the datagram area of the accepted frame"
                );

                self.facts.rx_processed += 1;

                let r = self.tasks[ti].req.as_mut().unwrap();

                match genuine_for {
                    Some((gid, data, wkc)) if gid == id => {
                        r.state = RState::Received;
                        r.resp_data = data;
                        r.resp_wkc = wkc;
                    }
                    _ => {
                        r.state = RState::ReceivedMutated;
                    }
                }

                if r.polled {
                    soft_check!(self, 
                        r.waker.count() > 0,
                        "C01",
                        "lost-wakeup",
                        "request {id}: response accepted but the waiting task was not woken"
                    );
                }
            }
            (Some((ti, slot, id)), other) => {
                // A frame addressed to an awaiting request was ignored or rejected.
                if let Some((gid, _, _)) = &genuine_for {
                    if *gid == id {
                        bail!(
                            "C01",
                            "genuine-response-rejected",
                            "request {id} (slot {slot}, first index {first_idx:?}) is awaiting its response but the genuine response was not accepted: {other:?}"
                        );
                    }
                }

                check!(
                    changed.iter().all(|c| *c == usize::from(slot)),
                    "C05",
                    "other-slot-altered",
                    "rejecting a frame addressed to slot {slot} changed slots {changed:?}"
                );

                if !changed.is_empty() {
                    self.facts.matched_slot_touched_on_reject += 1;
                }

                self.facts.rx_rejected += 1;

                // The implementation may leave the matched slot claimed (RxBusy) when it rejects
                // the frame half way; the request then can only time out.
                let st = after[usize::from(slot)].state;
                let r = self.tasks[ti].req.as_mut().unwrap();

                if st == ST_RXBUSY {
                    r.state = RState::RxStuck;
                    r.error_paths.insert("rx-reject-stuck");
                } else {
                    check!(
                        st == ST_SENT,
                        "C02",
                        "rejected-left-odd-state",
                        "rejecting a frame addressed to slot {slot} left it in state {st}"
                    );
                }
            }
        }

        Ok(())
    }

    fn op_deliver(&mut self, sel: u16, mutation: &Mutation, resp_seed: u8, wkc: u16) -> Result<(), Fail> {
        if self.wire.is_empty() && (matches!(mutation, Mutation::Genuine | Mutation::Duplicate) || self.live_reqs().count() == 0) {
            // Nothing on the wire: garbage can still arrive
            match mutation {
                Mutation::Garbage { .. } | Mutation::GarbagePayload { .. } | Mutation::Raw { .. } => {
                    let b = self.mutate(&[0u8; 64], mutation);

                    self.facts.deliveries_mutated += 1;

                    return self.deliver_bytes(&b, None);
                }
                _ => {
                    self.facts.ops_skipped += 1;

                    return Ok(());
                }
            }
        }

        // Candidates: frames on the wire, plus (for mutated deliveries: "any bytes" may arrive)
        // the frames of live requests that have not been transmitted (yet / again).
        let mut cands: Vec<(u64, Vec<u8>)> = self.wire.iter().map(|w| (w.req, w.bytes.clone())).collect();

        if !matches!(mutation, Mutation::Genuine | Mutation::Duplicate) {
            for r in self.live_reqs() {
                if r.state != RState::OnWire {
                    cands.push((r.id, r.expected_bytes.clone()));
                }
            }
        }

        if cands.is_empty() {
            self.facts.ops_skipped += 1;

            return Ok(());
        }

        let wi = crate::core::idx(sel, cands.len());
        let (req_id, sent) = cands.swap_remove(wi);

        let decoded = wire::decode_frame(&sent).map_err(|e| f("C04", "malformed", format!("transmitted frame not decodable: {e}")))?;

        let data: Vec<Vec<u8>> = decoded
            .datagrams
            .iter()
            .enumerate()
            .map(|(i, d)| bytes_from_seed(u64::from(resp_seed) * 131 + i as u64 + req_id * 7, usize::from(d.len)))
            .collect();
        let wkcs: Vec<u16> = (0..decoded.datagrams.len()).map(|i| wkc.wrapping_add(i as u16)).collect();

        let genuine = wire::make_response(&sent, &data, &wkcs);

        match mutation {
            Mutation::Genuine => self.deliver_bytes(&genuine, Some((req_id, data, wkcs))),
            Mutation::Duplicate => {
                self.deliver_bytes(&genuine, Some((req_id, data.clone(), wkcs.clone())))?;
                self.deliver_bytes(&genuine, Some((req_id, data, wkcs)))
            }
            m => {
                let b = self.mutate(&genuine, m);

                self.facts.deliveries_mutated += 1;

                if b == genuine {
                    self.deliver_bytes(&b, Some((req_id, data, wkcs)))
                } else {
                    self.deliver_bytes(&b, None)
                }
            }
        }
    }

    fn op_read_view(&mut self, task: usize, trim: u16) -> Result<(), Fail> {
        self.check_views("read-view")?;

        let Some(v) = self.tasks[task].views.last_mut() else {
            self.facts.ops_skipped += 1;

            return Ok(());
        };

        let len_before = v.expect.len();
        // 0..=len+2
        let k = crate::core::idx(trim, len_before + 3);

        v.pdu.trim_front(k);

        let cut = k.min(len_before);

        if cut > 0 {
            self.facts.nonzero_trim = true;
        }

        let expect_after = v.expect[cut..].to_vec();

        if v.pdu.len() != expect_after.len() {
            bail!(
                "C01",
                "trim-front-length",
                "trim_front({k}) on a {len_before} byte view leaves len() = {} (expected {}): the view now reaches {} bytes past the datagram's data area",
                v.pdu.len(),
                expect_after.len(),
                v.pdu.len() as i64 - expect_after.len() as i64
            );
        }

        check!(
            &v.pdu[..] == expect_after.as_slice(),
            "C01",
            "trim-front-content",
            "trim_front({k}): view shows {} expected {}",
            hex(&v.pdu),
            hex(&expect_after)
        );

        v.expect = expect_after;

        Ok(())
    }

    fn run_op(&mut self, op: &Op) -> Result<(), Fail> {
        self.facts.ops_executed += 1;

        match op {
            Op::Start { task, pushes, iter_mode } => self.op_start(usize::from(*task) % MAX_TASKS, pushes, *iter_mode),
            Op::CreateAndDrop { pushes } => self.op_create_and_drop(pushes),
            Op::CreateHold { pushes } => self.op_create_hold(pushes),
            Op::ReleaseCreated => self.op_release_created(),
            Op::TxClaim => self.op_tx_claim(),
            Op::TxFinish { outcome } => self.op_tx_finish(*outcome),
            Op::Poll { task } => self.op_poll(usize::from(*task) % MAX_TASKS),
            Op::DropFuture { task } => self.op_drop_future(usize::from(*task) % MAX_TASKS),
            Op::DropResult { task } => self.op_drop_result(usize::from(*task) % MAX_TASKS),
            Op::TxStep { outcome } => self.op_tx(*outcome),
            Op::Deliver { sel, mutation, resp_seed, wkc } => self.op_deliver(*sel, mutation, *resp_seed, *wkc),
            Op::Lose { sel } => {
                if self.wire.is_empty() {
                    self.facts.ops_skipped += 1;
                } else {
                    let i = crate::core::idx(*sel, self.wire.len());

                    self.wire.remove(i);
                }

                Ok(())
            }
            Op::Advance { us } => {
                vclock::advance_by(u64::from(*us));

                Ok(())
            }
            Op::ReadView { task, trim } => self.op_read_view(usize::from(*task) % MAX_TASKS, *trim),
        }
    }

    /// Forget every outstanding handle without running its destructor.
    fn leak_everything(&mut self) {
        for t in &mut self.tasks {
            if let Some(fut) = t.fut.take() {
                std::mem::forget(fut);
                self.facts.leaked_handles += 1;
            }

            t.req = None;
            t.views.clear();
            t.held_iter = None;
        }

        for (frame, _, _) in self.held_created.drain(..) {
            std::mem::forget(frame);
            self.facts.leaked_handles += 1;
        }

        if let Some((sf, _, _)) = self.held_sending.take() {
            std::mem::forget(sf);
            self.facts.leaked_handles += 1;
        }
    }

    /// Drop everything and check that the full capacity is available again.
    fn drain_and_probe(&mut self) -> Result<(), Fail> {
        if self.held_sending.is_some() {
            self.op_tx_finish(TxOutcome::Ok)?;
        }

        for ti in 0..self.tasks.len() {
            if self.tasks[ti].fut.is_some() {
                self.op_drop_future(ti)?;
            }

            self.tasks[ti].views.clear();
            self.tasks[ti].held_iter = None;
        }

        self.wire.clear();

        self.held_created.clear();

        for i in 0..self.n {
            let s = verif::slot(self.pdu_loop, i);

            check!(
                s.state == ST_NONE,
                "C03",
                "slot-leak",
                "after every handle was dropped slot {i} is still in state {}",
                s.state
            );
        }

        // While idle the transmit side must find nothing
        check!(self.tx.next_sendable_frame().is_none(), "C03", "phantom-sendable", "an idle storage offers a frame to the transmit side");

        let mut held = Vec::new();

        for k in 0..self.n {
            match verif::alloc_frame(self.pdu_loop) {
                Ok(fr) => held.push(fr),
                Err(e) => bail!(
                    "C03",
                    "capacity-lost",
                    "after every handle was dropped only {k} of {} frames can be allocated ({e:?})",
                    self.n
                ),
            }
        }

        match verif::alloc_frame(self.pdu_loop) {
            Err(Error::Pdu(PduError::SwapState)) => {}
            Err(e) => bail!("C03", "alloc-wrong-error", "allocation with all slots held failed with {e:?}"),
            Ok(_) => bail!("C02", "slot-given-twice", "allocated {} frames from a storage of {}", self.n + 1, self.n),
        }

        drop(held);

        for i in 0..self.n {
            check!(verif::slot(self.pdu_loop, i).state == ST_NONE, "C03", "created-drop-leak", "probe frames were not released");
        }

        self.facts.probes += 1;

        Ok(())
    }
}

/// Run a complete case. Returns the collected facts on success.
pub fn run_case(case: &Case) -> Result<Facts, Fail> {
    run_case_for("", case)
}

/// Run a case judged for property `focus` (pure observations of other properties are skipped).
pub fn run_case_for(focus: &str, case: &Case) -> Result<Facts, Fail> {
    let n = usize::from(case.config.slots);
    let frame_size = usize::from(case.config.frame_size);

    let storage = make_storage(n, frame_size)
        .ok_or_else(|| Fail::new("harness", format!("no storage for ({n}, {frame_size})")))?;

    let (mut tx, mut rx, mut pdu_loop) = storage.split();

    vclock::reset();

    verif::set_counters(&pdu_loop, 0, case.config.pdu_idx0);

    let mut facts = Facts::default();

    for phase in &case.phases {
        {
            let tx_waker = CountWaker::new();

            tx.replace_waker(&waker_of(&tx_waker));

            // SAFETY-free lifetime shortening: everything borrowed here ends with this block.
            let r = run_phase(case, phase, &mut tx, &mut rx, &pdu_loop, tx_waker, facts.clone(), focus);

            facts = r?;
        }

        if phase.reset_after {
            pdu_loop.reset();
            facts.resets += 1;

            for i in 0..n {
                let s = verif::slot(&pdu_loop, i);

                if s.state != ST_NONE {
                    return Err(f("C03", "reset-incomplete", format!("slot {i} in state {} after reset", s.state)));
                }
            }

            // Full capacity after reset
            {
                let mut held = Vec::new();

                for k in 0..n {
                    match verif::alloc_frame(&pdu_loop) {
                        Ok(fr) => held.push(fr),
                        Err(e) => return Err(f("C03", "capacity-lost-after-reset", format!("only {k} of {n} frames can be allocated after reset ({e:?})"))),
                    }
                }

                if verif::alloc_frame(&pdu_loop).is_ok() {
                    return Err(f("C02", "slot-given-twice", format!("allocated {} frames from a storage of {n} after reset", n + 1)));
                }
            }
        }
    }

    Ok(facts)
}

fn run_phase<'a, 'b, 's>(
    case: &Case,
    phase: &Phase,
    tx: &'b mut PduTx<'s>,
    rx: &'b mut PduRx<'s>,
    pdu_loop: &'a PduLoop<'a>,
    tx_waker: Arc<CountWaker>,
    facts: Facts,
    focus: &str,
) -> Result<Facts, Fail> {
    let n = usize::from(case.config.slots);

    let mut sim = Sim {
        cfg: case.config.clone(),
        n,
        frame_size: usize::from(case.config.frame_size),
        tx,
        rx,
        pdu_loop,
        held_created: Vec::new(),
        held_sending: None,
        allow_tx_window: case.allow_tx_window,
        allow_abandon_in_tx: case.allow_abandon_in_tx,
        orphan_tx: None,
        idx_total: 0,
        last_idx_before: 0,
        tasks: (0..MAX_TASKS)
            .map(|_| Task {
                fut: None,
                req: None,
                views: Vec::new(),
                held_iter: None,
            })
            .collect(),
        wire: Vec::new(),
        next_req: facts.ops_executed,
        alloc_seq: 0,
        slot_gen: vec![0; n],
        slot_error_paths: vec![BTreeSet::new(); n],
        tx_waker,
        facts,
        drop_views_before_reuse: case.drop_views_before_reuse,
        focus: focus.to_string(),
    };

    for (i, op) in phase.ops.iter().enumerate() {
        sim.run_op(op).map_err(|mut e| {
            e.message = format!("op #{i} {op:?}: {}", e.message);
            e
        })?;

        sim.invariants(&format!("op #{i}"))?;
    }

    if phase.reset_after && phase.leak_before_reset {
        sim.leak_everything();
    } else {
        sim.drain_and_probe()?;
    }

    Ok(sim.facts.clone())
}

/// Run a case for `property`: failures of other properties end the case silently (they are
/// reported by that property's own check).
pub fn run_for(property: &str, case: &Case, info: &mut CaseInfo) -> Result<Option<Facts>, Fail> {
    match crate::core::catch(|| run_case_for(property, case)) {
        Ok(Ok(facts)) => Ok(Some(facts)),
        Ok(Err(fail)) => {
            if fail.signature.starts_with(&format!("{property}|")) || fail.signature.starts_with("harness") {
                Err(fail)
            } else {
                info.label(format!("foreign:{}", fail.signature));

                Ok(None)
            }
        }
        Err(p) => {
            // A panic outside receive_frame: attribute by location. Panics raised by harness
            // code are harness errors (inconclusive), never violations.
            let site = crate::core::panic_site(&p);

            if crate::core::is_repo_site(&site) {
                Err(Fail::new(format!("{property}|panic|{site}"), p))
            } else {
                Err(Fail::new(format!("harness-panic|{site}"), p))
            }
        }
    }
}

// ---------------------------------------------------------------------------------------------
// Generators
// ---------------------------------------------------------------------------------------------

pub mod strategy {
    use super::*;
    use proptest::prelude::*;

    /// Generator weights for one property's view of the interpreter.
    #[derive(Clone, Debug)]
    pub struct Profile {
        pub slots: Vec<u8>,
        pub retry: Vec<Retry>,
        /// Timeout range in µs.
        pub timeout: (u32, u32),
        /// Advance range as a fraction of the timeout (percent).
        pub advance_pct: (u32, u32),
        pub w_start: u32,
        pub w_create_drop: u32,
        pub w_poll: u32,
        pub w_drop_future: u32,
        pub w_drop_result: u32,
        pub w_tx_ok: u32,
        pub w_tx_fail: u32,
        pub w_deliver_genuine: u32,
        pub w_deliver_mutated: u32,
        pub w_lose: u32,
        pub w_advance: u32,
        pub w_read_view: u32,
        pub max_ops: usize,
        pub max_phases: usize,
        pub max_pushes: usize,
        pub w_create_hold: u32,
        pub w_tx_claim: u32,
        pub allow_tx_window: bool,
        pub allow_abandon_in_tx: bool,
    }

    fn push_spec() -> impl Strategy<Value = PushSpec> + Clone {
        (crate::r#gen::cmd(), prop_oneof![4 => 0u16..16, 1 => 0u16..120], any::<u8>())
            .prop_map(|(cmd, len, seed)| PushSpec { cmd, len, seed })
    }

    pub fn mutation() -> impl Strategy<Value = Mutation> + Clone {
        prop_oneof![
            2 => (0u16..1600, any::<u8>()).prop_map(|(len, seed)| Mutation::Garbage { len, seed }),
            2 => (0u16..200, prop_oneof![0u16..64, 0u16..2048], any::<u8>()).prop_map(|(len, ecat_len, seed)| Mutation::GarbagePayload { len, ecat_len, seed }),
            2 => (1u8..=255).prop_map(|delta| Mutation::WrongIndex { delta }),
            3 => prop_oneof![0u8..12, any::<u8>()].prop_map(|idx| Mutation::SetIndex { idx }),
            2 => (0u16..1600).prop_map(|extra| Mutation::Oversize { extra }),
            3 => any::<u16>().prop_map(|k| Mutation::Truncated { k }),
            1 => Just(Mutation::EchoUnchanged),
            1 => any::<u8>().prop_map(|b| Mutation::OtherSource { b }),
            1 => any::<u16>().prop_map(|v| Mutation::EtherType { v }),
            2 => (0u16..2048).prop_map(|v| Mutation::EcatLen { v }),
            1 => (0u8..16).prop_map(|v| Mutation::EcatType { v }),
            1 => any::<u8>().prop_map(|v| Mutation::Command { v }),
            2 => any::<u16>().prop_map(|v| Mutation::LenFlags { v }),
            2 => (any::<u16>(), any::<u8>()).prop_map(|(at, x)| Mutation::FlipByte { at, x }),
            1 => Just(Mutation::Duplicate),
        ]
    }

    fn op(p: &Profile, timeout: u32) -> BoxedStrategy<Op> {
        let adv_lo = (u64::from(timeout) * u64::from(p.advance_pct.0) / 100) as u32;
        let adv_hi = ((u64::from(timeout) * u64::from(p.advance_pct.1) / 100) as u32).max(adv_lo + 1);
        let max_pushes = p.max_pushes;

        let task = 0u8..(MAX_TASKS as u8);

        let mut v: Vec<(u32, BoxedStrategy<Op>)> = Vec::new();

        v.push((
            p.w_start,
            (task.clone(), prop::collection::vec(push_spec(), 1..=max_pushes), prop::bool::weighted(0.3))
                .prop_map(|(task, pushes, iter_mode)| Op::Start { task, pushes, iter_mode })
                .boxed(),
        ));
        v.push((
            p.w_create_drop,
            prop::collection::vec(push_spec(), 0..=2).prop_map(|pushes| Op::CreateAndDrop { pushes }).boxed(),
        ));
        v.push((
            p.w_create_hold,
            prop_oneof![
                prop::collection::vec(push_spec(), 0..=2).prop_map(|pushes| Op::CreateHold { pushes }),
                Just(Op::ReleaseCreated),
            ]
            .boxed(),
        ));
        v.push((
            p.w_tx_claim,
            prop_oneof![
                Just(Op::TxClaim),
                Just(Op::TxFinish { outcome: TxOutcome::Ok }),
                any::<u16>().prop_map(|k| Op::TxFinish { outcome: TxOutcome::Partial(k) }),
                Just(Op::TxFinish { outcome: TxOutcome::Err }),
            ]
            .boxed(),
        ));
        v.push((p.w_poll, task.clone().prop_map(|task| Op::Poll { task }).boxed()));
        v.push((p.w_drop_future, task.clone().prop_map(|task| Op::DropFuture { task }).boxed()));
        v.push((p.w_drop_result, task.clone().prop_map(|task| Op::DropResult { task }).boxed()));
        v.push((p.w_tx_ok, Just(Op::TxStep { outcome: TxOutcome::Ok }).boxed()));
        v.push((
            p.w_tx_fail,
            prop_oneof![
                any::<u16>().prop_map(|k| Op::TxStep { outcome: TxOutcome::Partial(k) }),
                Just(Op::TxStep { outcome: TxOutcome::Err }),
            ]
            .boxed(),
        ));
        v.push((
            p.w_deliver_genuine,
            (any::<u16>(), any::<u8>(), crate::r#gen::u16_edgy())
                .prop_map(|(sel, resp_seed, wkc)| Op::Deliver { sel, mutation: Mutation::Genuine, resp_seed, wkc })
                .boxed(),
        ));
        v.push((
            p.w_deliver_mutated,
            (any::<u16>(), mutation(), any::<u8>(), any::<u16>())
                .prop_map(|(sel, mutation, resp_seed, wkc)| Op::Deliver { sel, mutation, resp_seed, wkc })
                .boxed(),
        ));
        v.push((p.w_lose, any::<u16>().prop_map(|sel| Op::Lose { sel }).boxed()));
        v.push((p.w_advance, (adv_lo..adv_hi).prop_map(|us| Op::Advance { us }).boxed()));
        v.push((
            p.w_read_view,
            (task, any::<u16>()).prop_map(|(task, trim)| Op::ReadView { task, trim }).boxed(),
        ));

        let v: Vec<_> = v.into_iter().filter(|(w, _)| *w > 0).collect();

        proptest::strategy::Union::new_weighted(v).boxed()
    }

    pub fn config(p: &Profile) -> BoxedStrategy<Config> {
        (
            prop::sample::select(p.slots.clone()),
            prop::sample::select(vec![44u16, 46, 60, 64, 128, 256, 1514]),
            prop::sample::select(p.retry.clone()),
            p.timeout.0..=p.timeout.1,
            prop_oneof![3 => Just(0u8), 1 => any::<u8>(), 1 => 240u8..=255],
        )
            .prop_map(|(slots, frame_size, retry, timeout_us, pdu_idx0)| Config {
                slots,
                frame_size,
                retry,
                timeout_us,
                pdu_idx0,
            })
            .boxed()
    }

    pub fn case(p: Profile) -> impl Strategy<Value = Case> + Clone {
        let allow_tx_window = p.allow_tx_window;
        let allow_abandon_in_tx = p.allow_abandon_in_tx;

        config(&p).prop_flat_map(move |config| {
            let phase = (prop::collection::vec(op(&p, config.timeout_us), 1..=p.max_ops), any::<bool>(), any::<bool>())
                .prop_map(|(ops, reset_after, leak_before_reset)| Phase { ops, reset_after, leak_before_reset });

            (Just(config), prop::collection::vec(phase, 1..=p.max_phases), any::<bool>()).prop_map(
                move |(config, phases, drop_views_before_reuse)| Case {
                    config,
                    phases,
                    drop_views_before_reuse,
                    allow_tx_window,
                    allow_abandon_in_tx,
                },
            )
        })
    }
}

// ---------------------------------------------------------------------------------------------
// Per-property profiles, non-triviality rules and the shared check driver
// ---------------------------------------------------------------------------------------------

pub mod profiles {
    use super::{Retry, strategy::Profile};
    use crate::core::Tier;

    pub fn c01(tier: Tier) -> Profile {
        Profile {
            slots: tier.pick(vec![1, 2, 4], vec![1, 2, 4, 8, 16]),
            retry: vec![Retry::None, Retry::Count(2)],
            // No deadline expires for the request under observation: huge timeout, tiny advances
            timeout: (1_000_000_000, 2_000_000_000),
            advance_pct: (0, 1),
            w_start: 6,
            w_create_drop: 1,
            w_poll: 6,
            w_drop_future: 1,
            w_drop_result: 2,
            w_tx_ok: 7,
            w_tx_fail: 1,
            w_deliver_genuine: 8,
            w_deliver_mutated: 1,
            w_lose: 1,
            w_advance: 1,
            w_read_view: 5,
            max_ops: tier.pick(40, 120),
            max_phases: 2,
            max_pushes: 4,
            w_create_hold: 1,
            w_tx_claim: 1,
            allow_tx_window: false,
            allow_abandon_in_tx: false,
        }
    }

    /// Many datagrams per frame and many slots: reaches the 8 bit index wrap while old slots have
    /// not been re-allocated yet.
    pub fn c01_wrap(_tier: Tier) -> Profile {
        Profile {
            slots: vec![8, 16],
            retry: vec![Retry::None],
            timeout: (1_000_000_000, 2_000_000_000),
            advance_pct: (0, 1),
            w_start: 8,
            w_create_drop: 2,
            w_poll: 6,
            w_drop_future: 3,
            w_drop_result: 1,
            w_tx_ok: 8,
            w_tx_fail: 0,
            w_deliver_genuine: 8,
            w_deliver_mutated: 0,
            w_lose: 0,
            w_advance: 0,
            w_read_view: 1,
            max_ops: 120,
            max_phases: 1,
            max_pushes: 70,
            w_create_hold: 1,
            w_tx_claim: 0,
            allow_tx_window: false,
            allow_abandon_in_tx: false,
        }
    }

    pub fn c03(tier: Tier) -> Profile {
        Profile {
            slots: tier.pick(vec![1, 2, 4], vec![1, 2, 4, 8, 16]),
            retry: vec![Retry::None, Retry::Count(0), Retry::Count(1), Retry::Count(2), Retry::Count(3), Retry::Forever],
            timeout: (100, 2000),
            advance_pct: (0, 150),
            w_start: 6,
            w_create_drop: 2,
            w_poll: 6,
            w_drop_future: 3,
            w_drop_result: 2,
            w_tx_ok: 4,
            w_tx_fail: 3,
            w_deliver_genuine: 4,
            w_deliver_mutated: 3,
            w_lose: 2,
            w_advance: 4,
            w_read_view: 1,
            max_ops: tier.pick(60, 300),
            max_phases: 3,
            max_pushes: 3,
            w_create_hold: 2,
            w_tx_claim: 2,
            allow_tx_window: false,
            allow_abandon_in_tx: false,
        }
    }

    pub fn c05(tier: Tier) -> Profile {
        Profile {
            slots: vec![1, 2, 4],
            retry: vec![Retry::None, Retry::Count(1)],
            timeout: (1000, 100_000),
            advance_pct: (0, 30),
            w_start: 6,
            w_create_drop: 1,
            w_poll: 3,
            w_drop_future: 2,
            w_drop_result: 1,
            w_tx_ok: 6,
            w_tx_fail: 1,
            w_deliver_genuine: 2,
            w_deliver_mutated: 12,
            w_lose: 1,
            w_advance: 1,
            w_read_view: 0,
            max_ops: tier.pick(40, 100),
            max_phases: 2,
            max_pushes: 3,
            w_create_hold: 2,
            w_tx_claim: 2,
            allow_tx_window: false,
            allow_abandon_in_tx: false,
        }
    }

    pub fn c06(tier: Tier, allow_tx_window: bool, allow_abandon_in_tx: bool) -> Profile {
        Profile {
            slots: vec![1, 2, 4],
            retry: vec![Retry::None, Retry::Count(0), Retry::Count(1), Retry::Count(2), Retry::Count(3), Retry::Forever],
            timeout: (50, 2000),
            advance_pct: (20, 120),
            w_start: 5,
            w_create_drop: 0,
            w_poll: 8,
            w_drop_future: 1,
            w_drop_result: 1,
            w_tx_ok: 6,
            w_tx_fail: 1,
            w_deliver_genuine: 3,
            w_deliver_mutated: 1,
            w_lose: 3,
            w_advance: 7,
            w_read_view: 0,
            max_ops: tier.pick(50, 150),
            max_phases: 2,
            max_pushes: 2,
            w_create_hold: 0,
            w_tx_claim: if allow_tx_window { 5 } else { 1 },
            allow_tx_window,
            allow_abandon_in_tx,
        }
    }
}

/// Fill the per-case classification from the facts of a run, per property.
pub fn classify(property: &str, facts: &Facts, info: &mut CaseInfo) {
    info.count("ops", facts.ops_executed);
    info.count("ops_skipped", facts.ops_skipped);
    info.count("probes", facts.probes);
    info.count("rx_processed", facts.rx_processed);
    info.count("rx_rejected", facts.rx_rejected);
    info.count("rx_ignored", facts.rx_ignored);
    info.count("retransmissions", facts.retransmissions);
    info.count("timeouts", facts.timeouts);
    info.count("matched_slot_touched_on_reject", facts.matched_slot_touched_on_reject);
    info.count("known_view_alias_excluded", facts.known_view_alias_excluded);

    if facts.out_of_order_completion {
        info.label("out-of-order-completion");
    }

    if facts.slot_reused_while_view_held {
        info.label("slot-reused-while-view-held");
    }

    if facts.nonzero_trim {
        info.label("nonzero-trim");
    }

    if facts.two_error_paths_same_slot {
        info.label("two-error-paths-same-slot");
    }

    if facts.retransmissions > 0 {
        info.label("retransmitted");
    }

    if facts.timeouts > 0 {
        info.label("timed-out");
    }

    if facts.precedence_cases > 0 {
        info.label("response-before-deadline-check");
    }

    if facts.tx_window_events > 0 {
        info.label("expiry-or-drop-while-tx-inside");
    }

    if facts.leaked_handles > 0 {
        info.label("reset-with-leaked-handles");
    }

    if facts.resets > 0 {
        info.label("reset");
    }

    if facts.max_outstanding >= 2 {
        info.label("two-or-more-outstanding");
    }

    if facts.rx_candidates > 0 {
        info.label("rx-index-matches-a-slot");
    }

    if facts.rx_truncated_in_header > 0 {
        info.label("rx-truncated-in-header");
    }

    info.nontrivial = match property {
        "C01" => facts.out_of_order_completion || facts.slot_reused_while_view_held || facts.nonzero_trim,
        "C03" => facts.two_error_paths_same_slot,
        "C05" => facts.rx_candidates > 0 || facts.rx_truncated_in_header > 0,
        "C06" => facts.retransmissions > 0 || facts.timeouts > 0 || facts.precedence_cases > 0 || facts.tx_window_events > 0,
        _ => facts.ops_executed > 0,
    };
}

/// The closure used with `Check::run_prop` for the A1 interpreter.
pub fn prop_closure(property: &'static str) -> impl Fn(&Case, &mut CaseInfo) -> Result<(), Fail> + Send + Sync {
    move |case, info| match run_for(property, case, info) {
        Ok(Some(facts)) => {
            classify(property, &facts, info);

            Ok(())
        }
        Ok(None) => Ok(()),
        Err(e) => Err(e),
    }
}
